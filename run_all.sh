#!/bin/bash
# Runs every claimed property's quick check on /repo's current tree (evidence files are rewritten) and summarises.
# usage: run_all.sh [--write-ledger]
cd /verif
rc_all=0
for p in $(python3 -c "import json;print(' '.join(c['property_id'] for c in json.load(open('/verif/MANIFEST.json'))['checks']))"); do
  s=$(date +%s); ./check $p --tier quick "$@" > /tmp/run_$p.log 2>&1; rc=$?; e=$(date +%s)
  [ $rc -ne 0 ] && rc_all=1
  echo "$p rc=$rc $((e-s))s $(grep -E '^govc:' /tmp/run_$p.log | tail -1 | cut -c1-150)"
  grep -E "^(VIOLATION|SLOW|VACUOUS)" /tmp/run_$p.log | cut -c1-220 | head -4
done
python3-vt - <<'PY'
import json,glob,jsonschema
sch=json.load(open('/root/.vp/EVIDENCE.schema.json'))
for f in sorted(glob.glob('/verif/evidence/*.json')):
    e=json.load(open(f)); jsonschema.validate(e,sch)
    c=e['coverage']
    if c['obligations']!=c['discharged']: print("EVIDENCE MISMATCH",f,c['obligations'],c['discharged'])
print("evidence files validated")
PY
exit $rc_all
