#!/usr/bin/env python3
"""Regenerates /verif/MANIFEST.json from the table below (kept here so that the manifest is always schema-valid)."""
import json, subprocess

CLAIMED = {
 "C05": dict(
   text="Proof of the host-loop obligations of etcd/raft's documented Node contract, on every path of RaftGroup.run and for every Ready: messages are sent only after Save returned nil, except by a node that was leader at the first test (the documented optimisation), exactly once per Ready; Advance comes last (after Save, the one Send and the whole committed-entries loop); every configuration change that decodes reaches ApplyConfChange exactly once; StartNode (bootstrap) is reached only behind a positive freshness test of the very storage it is given, otherwise RestartNode.",
   note="Assumed, not proved: etcd/raft's own safety under these obligations; message faults, multi-replica histories and convergence are outside a sequential contract proof. The WAL observers used by the freshness test (InitialState/Snapshot/LastIndex) are assumed contracts here (C06 is about the store).",
   tech="contract-based typestate verification (ghost state + call hooks) against an assumed dependency contract, SMT",
   ref="DESIGN.md §4 C05"),
 "C01": dict(
   text="Proof (unbounded over histories, by per-operation contracts) of the entry-point clauses: Insert, Remove and Load keep 'a non-nil entry point is never a tombstone' and 'the entry point is nil only if nothing is stored' (anyVertex returns a stored vertex or nil exactly on an empty index), a successful Insert leaves an entry point; and of the search-path clauses: the greedy descent moves only to neighbours that are not tombstones and carries the true distance, Search hands a live vertex to the beam search, every item that enters the beam (searchLevel, heuristic selection) is created with exactly Distance(space, query, its vector) and is not a tombstone at that moment; searchLevel returns a queue ALL of whose items are such beam items, both selection modes (simple and heuristic) return only such items, and every entry of Search's result is (id, metadata, Distance(space, query, vector)) of one allocated, non-tombstoned vertex - 'what is popped was pushed' comes from an uninterpreted item predicate that every queue contract (C19) carries through Push/Pop/heapify; Search returns at most k items, one per beam item, never (nil, nil), and (simple selection, k >= 1, entry point present, item counter >= 1) at least one item; the merge across partitions is ascending and at most k (shared with C09). PLUS a BOUNDED stand-in, labelled as such and not counted as proved, for what depends on the beam's contents (returned items are stored with current metadata and true score, ascending, unique, non-empty answers): exhaustive histories up to 4 (thorough 5) operations and randomised large histories around the entry point.",
   note="Not proved (bounded only): uniqueness of ids, ascending order inside one index, and the non-empty clause for the heuristic selection mode; the non-empty clause takes 'entry point present implies item counter >= 1' as a precondition (inductive from C02's counter exactness and the entry-point invariants, not one machine-checked theorem); the content proof assumes the heap-order preconditions of the queue operations at the index's call sites (well-formed heap, non-NaN and non-negative distances), which are generated as obligations but not claimed; 'not a tombstone' is proved, 'currently stored' needs the graph invariant (a linked, non-tombstoned vertex is stored) which is not under contract; panic-freedom of the graph code is unclaimed; the entry-point invariants are inductive over operations (NewHnsw starts with nil entry point and empty shards - by inspection), not re-checked at call sites; sequential semantics; NaN scores excluded by the float-order assumption.",
   tech="contract-based deductive verification (entry-point invariants, call hooks on beam item creation, loop invariants over map iteration) + a labelled bounded stand-in for beam-content clauses",
   ref="DESIGN.md §4 C01"),
 "C06": dict(
   text="Proof (all group ids, all indices, 64-bit vectors) of the key layout the store's isolation and ordering rest on: parseIndex(entryKey(i)) = i, the first 16 bytes of an entry key and bytes 2..17 of the hard-state/snapshot keys are the group id, lengths 24/18/18, 'hs' vs 'ss' tags, and the lemma that a key carrying the id bytes of two groups belongs to one group; plus the snapshot-install protocol of Save as typestate on every path: the stored log is wiped before the marker entry is written, entries of the same Ready are written after it, the cached last index is reset to the snapshot index. PLUS a BOUNDED stand-in, labelled as such and not counted as proved: differential comparison of every observer (FirstIndex, LastIndex, Term, Entries under three size limits, Snapshot, InitialState) against etcd/raft MemoryStorage over all legal call sequences up to length 4 (thorough: 6) incl. conflicting overwrites, installs inside/beyond the log, compaction, reopen with cold cache, a neighbour group in the same database, and DeleteGroup followed by re-creation.",
   note="Badger itself (transactions, write batches applying operations in order, prefix iteration) is outside the contract language and assumed; that is why equivalence with the reference storage is bounded, not proved. writeEntries/writeSnapshot/deleteEntries* are assumed contracts inside the Save proof. Order-preservation of big-endian keys under bytes.Compare is not machine-checked. Theoretical observation (not a violation of anything the code can produce): an entry prefix scan of a group whose id starts with the bytes 'hs'/'ss' followed by 14 bytes of another group's id would also meet that group's 18-byte key; ids are random UUIDs.",
   tech="contract-based deductive verification in QF_BV for the key layout + call-order typestate on Save; labelled bounded differential stand-in for the storage contract",
   ref="DESIGN.md §4 C06"),
 "C08": dict(
   text="Proof (unbounded) of the clauses a per-function contract can carry: every length or count Save and Metadata.save write into a fixed-width field is converted losslessly under the stated size preconditions (a conversion that can truncate is a failed obligation); Load and Metadata.load/loadKV obtain every fixed-size token through io.ReadFull / binary.Read, never a bare Read (so the parse cannot depend on how the reader fragments the stream); a successful Load leaves sixteen freshly made shard maps (no stale items) and a byte counter equal to the sum of the loaded items' sizes (no stale counter), also on the empty-snapshot path. PLUS a BOUNDED stand-in, labelled as such and not counted as proved: exhaustive Save/Load round trips of every state reachable in <= 4 (thorough: 5) operations, fresh and used targets, three reader fragmentations, header on/off, comparing ids, vector bits, metadata, levels, live links, entry point and unread bytes.",
   note="The relation 'bytes written by Save = bytes read by Load' (stream grammar) is not expressible in the contract language - that half is bounded, not proved. Assumed: encoding/binary.Read/Write and io.ReadFull contracts (full reads, fixed sizes); graph shape wfGraph is a precondition of Save (established by the index operations, C01); Load's behaviour on corrupt streams (negative level, unknown ids) is outside the property and its panics are not obligations here.",
   tech="contract-based deductive verification (lossless-conversion obligations, call hooks forbidding partial reads, ghost byte counter, freshness invariants) + a labelled bounded round-trip stand-in",
   ref="DESIGN.md §4 C08"),
 "C09": dict(
   text="Proof under a stated channel protocol (unbounded in the number of nodes/partitions, every schedule covered by the most general receive): each worker body sends exactly one message on exactly one channel on every path (errors non-nil); the collector spawns one worker per map entry / partition id, consumes exactly as many real messages as it spawned or returns an error, never returns (nil, nil), and its result is ascending by score and at most k long. Neither the functions nor their function literals close the channels (noclose obligation), which is what makes every receive a real message.",
   note="Assumed: goroutine bodies are not executed by the generator - the protocol (who sends how many messages) is declared by hooks and each party is verified against it; sort.Sort sorts w.r.t. Less (assumed contract); 'exactly the k best of the union' is carried only as sorted-prefix-of-what-was-received (multiset equality of the merge is not machine-checked); getSearchQueryNodes' 'every partition on exactly one node list' is assumed; NaN scores excluded by the float-order assumption.",
   tech="contract-based deductive verification with ghost message counters (rely/guarantee over declared channel protocol), SMT",
   ref="DESIGN.md §4 C09, §2.5"),
 "C10": dict(
   text="Proof (unbounded, 64-bit vectors): UuidMod is total for every non-zero modulus, returns a value < mod, reads nothing but its arguments; obligations generated from the real function body (binary.LittleEndian.Uint64 verified in place by inlining).",
   note="Assumes: go/ssa faithful, solver soundness. Modulus != 0 is a precondition pushed to callers.",
   tech="weakest-precondition VCs over go/ssa, QF_BV 64-bit, discharged by z3/cvc5",
   ref="DESIGN.md §4 C10"),
 "C02": dict(
   text="Proof (unbounded): the index is verified against the finite-map view contents: id -> vertex spread over 16 shards. storeVertex/removeVertex/Get/GetVertex/Insert/Remove have exact postconditions (exact errors, nothing else changes, counters move by exactly 1 and by bytesOf(item) in wrap-around uint64 arithmetic incl. the two's-complement decrement), the partition apply functions insert/update/delete and their batch forms are verified on top of them, including the metadata merge of update (new keys win, old keys kept, nothing else) and the outcome value handed to Notify.",
   note="Assumed: Metadata.bytesSize is an uninterpreted function of the map (determinism, not the sum); float link estimate in BytesSize not covered; 'bytesSize equals the sum over live items' follows from the per-operation deltas by the induction over histories (meta-argument); graph maintenance is covered only through its frame (whole-family modifies for links and queue internals); safety side-conditions of the graph code are owned by C01/C12; sequential semantics.",
   tech="contract-based deductive verification (functional contracts against a map spec, frames, loop invariants over map iteration), SMT",
   ref="DESIGN.md §4 C02"),
 "C03": dict(
   text="Proof of the ordering obligations only (every control-flow path of the ready loop, every Ready content): wal.Save(HardState, Entries, Snapshot) has returned nil before any committed entry, snapshot or configuration change is handed to the state machine; the applied-index variable equals the index of the last entry handed over, and trySnapshot is called with exactly that index, on the same goroutine, and labels the snapshot with the index it was given and the bytes snapshotFn returned; Start re-installs the stored snapshot before the loop is launched and fails if that fails; success of proposeAndWaitForCommit comes only from the apply path (C11).",
   note="NOT decided by this family: crash atomicity itself. Assumed: Badger makes a flushed write batch durable and atomic (only while the batch fits one transaction); etcd/raft re-delivers committed-but-unapplied entries after RestartNode; a crash is a prefix of completed Flush calls. The implication 'ordering + those assumptions => acknowledged writes survive' is prose in DESIGN.md, not a machine proof.",
   tech="contract-based typestate verification (ghost state + call hooks) over the real ready loop, SMT",
   ref="DESIGN.md §4 C03"),
 "C04": dict(
   text="Proof (unbounded) of the apply half: partition.process dispatches every well-formed entry to an apply function whose postcondition determines the new contents and the outcome as a function of (old contents, entry) only - map iteration order, levels, links and entry point cannot influence them by the frame contracts; apply returns nil and notifies exactly once. Batch forms: per-id outcome facts and untouched ids outside the batch.",
   note="Assumed: well-formedness of the decoded entry (16-byte ids, level >= 0, own metadata map) - establishing it is C12's obligation on proposers; proto.Unmarshal and uuid.FromBytes contracts; the snapshot half (restore(snapshot(s)) = s) is C08's subject: here only Load's 'sixteen fresh shard maps, counters from the stream' postconditions are shared (so a restore cannot keep items of the previous state); the step from per-entry determinism to replica equality is the standard induction over the log (not machine-checked).",
   tech="contract-based deductive verification, ghost capture of the notified outcome, SMT",
   ref="DESIGN.md §4 C04"),
 "C11": dict(
   text="Proof of the sequential clauses (unbounded over inputs and paths): a single write rejects a dimension mismatch before anything is proposed or sent; an unreachable owner or a failed remote call yields an error; a successful write took exactly one route (one local proposal or one remote call); proposeAndWaitForCommit returns success only for a value received from this proposal's own notification channel and an error when none arrived; every apply function notifies exactly once with that operation's outcome (shared with C02/C04); every notification channel that a non-blocking Notify will feed is created with capacity >= 1 (the sufficient condition for delivery whatever the timing).",
   note="Not explored: interleavings - delivery is proved via the capacity precondition rather than by enumerating schedules; uniqueness of notification ids (uuid.NewV4) assumed; partition.insert/update/remove and the raft proposal path are assumed contracts here; batch error maps at dataset level (partitionsBatchRequest fan-in) not yet under contract.",
   tech="contract-based deductive verification with ghost counters for proposals/RPCs/notifications, SMT",
   ref="DESIGN.md §4 C11"),
 "C12": dict(
   text="Proof (unbounded over requests) of the boundary and poison clauses on 80 functions: every RPC handler of the DataManager, DatasetManager and Search services is verified for an ARBITRARY decoded request (no requires on ids, lengths, numbers, maps) - every panic site in it and every precondition of the storage method it calls is an obligation; the storage request paths below them likewise (single and batch writes, fan-out workers, Search/SearchPartitions, catalogue Create/Delete/List/Get). Poison clause: whatever a proposer hands to raft satisfies wfChange / wfDatasetRecord - 16-byte ids everywhere, vectors of the dataset's dimension, non-negative levels, dimension/partition count/replication factor >= 1, a defined metric, one partition record per partition - which is exactly what partition.process / createDataset need to apply without error (their side: 'returns nil on well-formed entries', shared with C04/C14). Memory clause: in the search path every make() sized by a non-constant is bounded by existing data (alloc#proportional, 65536*memcap), so k cannot size an allocation. Oversized batches are refused first.",
   note="Assumed at handler entry: the catalogue invariant wfCatalogue (every listed dataset satisfies wfDatasetFull) - established per dataset by the VERIFIED newDataset/newPartition/createDataset for records that Create accepted, kept by induction over catalogue operations (not machine-checked as one theorem); index.NewHnsw's defaults (small configuration constants, empty index) are an assumed contract; protobuf decoding yields non-nil messages without nil elements; the Space enum table has exactly 3 values; peers answer with canonical UUID keys; proto Marshal/Unmarshal round-trips lengths. Panic-freedom INSIDE the index graph code (searchLevel, selectNeighbors*, pruneNeighbors, Insert/Remove link maintenance) and inside the raft host loop is NOT part of this check (owned by C01 / unclaimed) - the index is covered here only through its preconditions and allocation sizes. Not covered: wedging (deadlock), goroutine interleavings, NodesManager RPCs, a huge partition_count in Create (a policy limit, recorded in DESIGN as an observation).",
   tech="contract-based deductive verification: no-panic and precondition push-back to the RPC boundary, proposal well-formedness hooks on proto.Marshal, allocation-size obligations, SMT",
   ref="DESIGN.md §4 C12"),
 "C14": dict(
   text="Proof of the state-machine clauses (unbounded): createDataset/deleteDataset against the map view (exact outcomes, other ids untouched, undecodable entries change nothing); process applies a decodable entry of a known type with exactly one apply function; processSnapshot into ANY manager state leaves exactly the snapshot's ids (kept entries are the old objects); the shared zero group delivers an entry to the consumer it names exactly once; wiring typestate in Server.setup: RaftGroup.Start (which restores the snapshot and launches replay) only after every consumer has registered; NewSharedGroup/NewRaftGroup leave the group with the fields Start needs.",
   note="Not decided: 'every node lists it' as a statement about N processes (etcd/raft + C05 host obligations); updatePartitionNodes, newDataset, Allocator.watch/unwatch are assumed contracts; snapshot() is only as good as proto.Marshal (assumed); field-by-field equality of restored metadata is inherited from newDataset's assumed contract.",
   tech="contract-based deductive verification (map view, loop invariants incl. delete-during-range, ghost typestate for wiring), SMT",
   ref="DESIGN.md §4 C14"),
 "C16": dict(
   text="Proof (unbounded in N, R, P and in the shuffle): every partition gets exactly min(R,N) distinct member ids, and no placement shares storage with the shuffle buffer or another placement. rand.Shuffle is an assumed contract (calls swap(i,j), 0<=i,j<n, any number of times); the swap closure is verified in place against a caller-supplied invariant.",
   note="Assumed: rand.Shuffle contract; sequential semantics; independence is proved in the sufficient form 'results do not alias the buffer or each other'.",
   tech="contract-based deductive verification: loop invariants + higher-order call invariant, SMT (z3/cvc5)",
   ref="DESIGN.md §4 C16"),
 "C17": dict(
   text="Proof under a spawn contract: SizeInfo handles every partition exactly once (local count or exactly one worker), every variable a worker captures by reference is never re-assigned by the spawner afterwards (captured-cell stability, checked on the SSA under the module's go 1.14 loop-variable semantics), the worker body has exactly one outcome per path (one non-nil error message, or both counters added once), and any non-nil message makes the call fail.",
   note="Assumed: goroutine bodies are verified as separate sequential functions against the declared protocol; remote PartitionInfo answers are whatever the peer returns (its own contract is PartitionInfo's); counter sums are wrap-around uint64; per-partition values are not re-derived (exactness of each addend is the callee's contract).",
   tech="contract-based deductive verification with ghost counters + static captured-variable analysis on go/ssa, SMT",
   ref="DESIGN.md §4 C17"),
 "C19": dict(
   text="Proof (unbounded queue size): container/heap up/down/Init/Push/Pop verified in place with loop invariants against the min/max queue types; Pop returns the old root, the root is extremal (lemma by strong induction, step discharged by SMT), lengths are exact, array changes happen only through Swap (writes-via obligation), Reverse yields a fresh well-formed queue of the opposite kind and leaves the source's storage untouched.",
   note="Assumed: strict weak order of float32 '<' on non-NaN values (NaN-free and non-nil items are queue invariants, pushed to callers as preconditions); multiset equality is carried as 'only Swap writes' + exact Push/Pop positions, the permutation argument itself is not machine-checked.",
   tech="contract-based deductive verification of real code incl. the container/heap dependency; SMT with quantified invariants",
   ref="DESIGN.md §4 C19"),
 "C20": dict(
   text="Proof of the state-machine clauses (unbounded): ProposeJoin proposes an AddNode change carrying exactly the announced id and address (ProposeLeave: RemoveNode with the id); applying it on the zero group lists the node under exactly string(Context) / unlists it, every other group leaves the book untouched, and ApplyConfChange is reached exactly once; Conn.AddNode/RemoveNode/Nodes/NodeIds against the finite-map view of the address book (announced address wins, other entries untouched, Nodes returns a fresh copy). The snapshot clause (a member restoring a compacted zero-group snapshot recovers the addresses) is checked as 'snapshot() consults the address book' and is a KNOWN FINDING on the current tree.",
   note="Not decided: 'eventually lists' and behaviour under message loss (liveness, distributed). tryJoin / NodesManager are not under contract. []byte<->string conversions are uninterpreted with the round-trip axiom string([]byte(s)) == s.",
   tech="contract-based deductive verification (map view of the address book, hooks on the proposed configuration change), SMT",
   ref="DESIGN.md §4 C20"),
}

NA = {
 "C07": "search quality: exactness needs graph reachability (transitive closure, not first-order), recall is a statistical statement about float geometry; no contract within reach (DESIGN §5)",
 "C13": "quantifies over goroutine interleavings (data races, linearizability); the generator erases locks/atomics (sequential semantics) and no permission logic is available (DESIGN §5)",
 "C15": "kernels are c2goasm byte-encoded machine code (no Go AST/SSA to generate conditions from) and the statement is about IEEE-754 rounding (DESIGN §5)",
 "C18": "liveness/deadlock-freedom over schedules; partial-correctness contracts say nothing about blocking (DESIGN §5)",
}
NOT_BUILT = "not built yet in this session (engine exists; contracts for this property pending); see DESIGN.md"

props = [json.loads(l)["id"] for l in open("/verif/properties.jsonl")]
checks = []
for p in props:
    if p in CLAIMED:
        c = CLAIMED[p]
        checks.append({
          "property_id": p,
          "quick_cmd": f"./check {p} --tier quick",
          "thorough_cmd": f"./check {p} --tier thorough",
          "evidence_file": f"/verif/evidence/{p}.json",
          "replay_cmd_template": f"./check {p} --tier quick  # replay files are JSON records: {{path}}",
          "engine": "govc",
          "level_claimed": {"category": "proof", "text": c["text"], "design_ref": c["ref"]},
          "level_note": c["note"],
          "technique": c["tech"],
        })
na = []
for p in props:
    if p not in CLAIMED:
        na.append({"property_id": p, "reason": NA.get(p, NOT_BUILT)})
commits = subprocess.run(["git","-C","/repo","log","--format=%h %s"],capture_output=True,text=True).stdout.splitlines()
hook_commits = [l.split()[0] for l in commits if l.split(" ",1)[1].startswith("verif:")]
m = {
 "version": 1,
 "setup_cmd": "cd /verif/engine && GOFLAGS=-mod=vendor GOPROXY=off GOSUMDB=off GOTOOLCHAIN=local go build -o /verif/bin/govc .",
 "hooks": {"guard": "verif", "enable": "go build -tags verif (contract files */contracts_verif.go carry //go:build verif; the generator loads /repo with -tags=verif)",
           "baseline_off_cmd": "cd /repo && GOFLAGS=-mod=mod GOPROXY=off GOSUMDB=off go test -vet=off -count=1 ./...",
           "source_commits": hook_commits, "add_only": True},
 "engines": [{"name": "govc", "path": "/verif/engine", "serves_properties": sorted(CLAIMED),
              "kind_free_text": "self-written verification-condition generator for Go (forward symbolic execution of go/ssa with contracts read from //@ comment files in /repo); one SMT query per obligation, raced on z3 4.8.12, z3 5.1.0, cvc5 1.0"}],
 "checks": checks,
 "not_applicable": na,
 "notes": "Exit 0 = all obligations generated from /repo's current tree discharged (or listed known findings); exit 1 = VIOLATION lines; exit 2 = infrastructure failure (tree does not load, contradictory contract, zero obligations).",
}
json.dump(m, open("/verif/MANIFEST.json","w"), indent=1)
print("claimed:", sorted(CLAIMED), "n/a:", [x["property_id"] for x in na])
