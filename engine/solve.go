package main

import (
	"bytes"
	"context"
	"crypto/sha256"
	"encoding/hex"
	"fmt"
	"os"
	"os/exec"
	"path/filepath"
	"runtime"
	"strings"
	"sync"
	"time"
)

type solverSpec struct {
	name string
	cmd  func(file string, timeoutS int) []string
	prep func(q string) string
}

func cvc5Prep(q string) string {
	// cvc5: 'par' is reserved etc. Our identifiers avoid it. Needs produce-models before set-logic; we don't ask for models here.
	return q
}

var solvers = []solverSpec{
	{"z3-5.1", func(f string, t int) []string { return []string{"z3-new", "smtlib2_compliant=true", fmt.Sprintf("-T:%d", t), f} }, nil},
	{"z3-4.8", func(f string, t int) []string { return []string{"z3", fmt.Sprintf("-T:%d", t), f} }, nil},
	{"cvc5", func(f string, t int) []string {
		return []string{"cvc5", fmt.Sprintf("--tlimit=%d", t*1000), "--full-saturate-quant", f}
	}, cvc5Prep},
}

type solveResult struct {
	status string // unsat, sat, unknown, timeout, error
	solver string
	timeS  float64
	detail string
}

// firstLine returns the solver's answer line: "success" acknowledgements (z3 5.1 prints them in its SMT-LIB compliant mode)
// are skipped, and an error reported before the answer IS the answer - z3 5.1 otherwise keeps going without the rejected
// assertion (and, outside compliant mode, silently coerces Bool to Int), so an ill-sorted query could come back "unsat".
func firstLine(s string) string {
	for _, l := range strings.Split(s, "\n") {
		l = strings.TrimSpace(l)
		if l == "" || l == "success" {
			continue
		}
		return l
	}
	return ""
}

// raceSolve runs all solvers on the query and returns the first definite answer.
func raceSolve(query string, dir, base string, timeoutS int) solveResult {
	file := filepath.Join(dir, base+".smt2")
	os.WriteFile(file, []byte(query), 0644)
	ctx, cancel := context.WithCancel(context.Background())
	defer cancel()
	type ans struct {
		r solveResult
	}
	ch := make(chan solveResult, len(solvers))
	start := time.Now()
	for _, s := range solvers {
		s := s
		go func() {
			f := file
			if s.prep != nil {
				q2 := s.prep(query)
				if q2 != query {
					f = filepath.Join(dir, base+"."+s.name+".smt2")
					os.WriteFile(f, []byte(q2), 0644)
				}
			}
			args := s.cmd(f, timeoutS)
			c, cancel2 := context.WithTimeout(ctx, time.Duration(timeoutS+2)*time.Second)
			defer cancel2()
			cmd := exec.CommandContext(c, args[0], args[1:]...)
			var out bytes.Buffer
			cmd.Stdout = &out
			cmd.Stderr = &out
			t0 := time.Now()
			cmd.Run()
			fl := firstLine(out.String())
			r := solveResult{solver: s.name, timeS: time.Since(t0).Seconds()}
			switch {
			case fl == "unsat":
				r.status = "unsat"
			case fl == "sat":
				r.status = "sat"
			case fl == "unknown":
				r.status = "unknown"
				r.detail = out.String()
			case fl == "timeout" || strings.Contains(out.String(), "timeout") || c.Err() != nil:
				r.status = "timeout"
			default:
				r.status = "error"
				r.detail = truncate(out.String(), 600)
			}
			ch <- r
		}()
	}
	var results []solveResult
	for range solvers {
		r := <-ch
		results = append(results, r)
		if r.status == "unsat" || r.status == "sat" {
			cancel()
			r.timeS = time.Since(start).Seconds()
			return r
		}
	}
	// no definite answer
	best := solveResult{status: "timeout", solver: "-", timeS: time.Since(start).Seconds()}
	var details []string
	for _, r := range results {
		details = append(details, fmt.Sprintf("%s:%s %s", r.solver, r.status, truncate(firstLine(r.detail), 200)))
		if r.status == "unknown" {
			best.status = "unknown"
		}
	}
	allErr := true
	for _, r := range results {
		if r.status != "error" {
			allErr = false
		}
	}
	if allErr {
		best.status = "error"
	}
	best.detail = strings.Join(details, "; ")
	return best
}

func truncate(s string, n int) string {
	if len(s) > n {
		return s[:n] + "…"
	}
	return s
}

func hashStr(s string) string {
	h := sha256.Sum256([]byte(s))
	return hex.EncodeToString(h[:12])
}

// SolveAll discharges obligations in parallel. Cover obligations expect sat/unknown (unsat = vacuous).
// NoRetry: obligations that are expected to stay undischarged (listed known findings) are not given the second, longer attempt
var NoRetry = func(ob *Ob) bool { return false }

func SolveAll(obs []*Ob, outDir string, timeoutS int) {
	os.MkdirAll(outDir, 0755)
	par := runtime.NumCPU() / 3
	if par < 2 {
		par = 2
	}
	sem := make(chan struct{}, par)
	var wg sync.WaitGroup
	cacheDir := os.Getenv("VERIF_SOLVER_CACHE")
	for _, ob := range obs {
		if ob.Status != "" {
			continue
		}
		ob := ob
		wg.Add(1)
		sem <- struct{}{}
		go func() {
			defer wg.Done()
			defer func() { <-sem }()
			base := mangle(strings.ReplaceAll(ob.Name, "/", "_"))
			if len(base) > 120 {
				base = base[:100] + "_" + hashStr(base)
			}
			var r solveResult
			key := ""
			if cacheDir != "" {
				key = filepath.Join(cacheDir, hashStr(ob.Query))
				if b, err := os.ReadFile(key); err == nil {
					f := strings.SplitN(string(b), " ", 3)
					if len(f) >= 2 {
						r = solveResult{status: f[0], solver: f[1] + "(cached)"}
					}
				}
			}
			if r.status == "" && ob.Kind == "cover" && ob.Light != "" {
				// vacuity check: the quantifier-free part answers quickly; sat there is good enough, unsat there is vacuity
				lr := lightSolveAny(ob.Light, outDir, base+".light")
				if lr.status == "sat" || lr.status == "unsat" {
					r = lr
				}
			}
			if r.status == "" && ob.Light != "" && ob.Light != ob.Query && ob.Kind != "cover" {
				lr := lightSolve(ob.Light, outDir, base+".light")
				if lr.status == "unsat" {
					r = lr
				}
			}
			if r.status == "" {
				to := timeoutS
				if ob.Kind == "cover" && to > 2 {
					to = 2
				}
				r = raceSolve(ob.Query, outDir, base, to)
				if ob.Kind != "cover" && r.status != "unsat" && r.status != "sat" && r.status != "error" && !NoRetry(ob) {
					// no answer within the limit on any back end: one more attempt with three times the limit before the
					// obligation is reported (a loaded machine must not turn a slow proof into an alarm)
					first := r
					r = raceSolve(ob.Query, outDir, base, 3*to)
					r.timeS += first.timeS
					if r.status == "unsat" {
						r.solver += "(retry)"
					}
				}
				if key != "" && (r.status == "unsat" || r.status == "sat") {
					os.MkdirAll(cacheDir, 0755)
					os.WriteFile(key, []byte(r.status+" "+r.solver), 0644)
				}
			}
			ob.Solver = r.solver
			ob.TimeS = r.timeS
			ob.Detail = r.detail
			if ob.Kind == "cover" {
				switch r.status {
				case "unsat":
					ob.Status = "vacuous"
				default:
					ob.Status = "discharged"
				}
				return
			}
			switch r.status {
			case "unsat":
				ob.Status = "discharged"
			case "sat":
				ob.Status = "refuted"
			default:
				ob.Status = r.status
			}
		}()
	}
	wg.Wait()
}

// lightSolve: quick attempt on the quantifier-free part of the hypotheses (z3 5.1 only, 3 s).
func lightSolve(query, dir, base string) solveResult {
	file := filepath.Join(dir, base+".smt2")
	os.WriteFile(file, []byte(query), 0644)
	defer os.Remove(file)
	t0 := time.Now()
	ctx, cancel := context.WithTimeout(context.Background(), 5*time.Second)
	defer cancel()
	out, _ := exec.CommandContext(ctx, "z3-new", "smtlib2_compliant=true", "-T:3", file).CombinedOutput()
	r := solveResult{solver: "z3-5.1(light)", timeS: time.Since(t0).Seconds()}
	if firstLine(string(out)) == "unsat" {
		r.status = "unsat"
	}
	return r
}

func lightSolveAny(query, dir, base string) solveResult {
	file := filepath.Join(dir, base+".smt2")
	os.WriteFile(file, []byte(query), 0644)
	t0 := time.Now()
	ctx, cancel := context.WithTimeout(context.Background(), 4*time.Second)
	defer cancel()
	out, _ := exec.CommandContext(ctx, "z3-new", "smtlib2_compliant=true", "-T:2", file).CombinedOutput()
	r := solveResult{solver: "z3-5.1(light)", timeS: time.Since(t0).Seconds()}
	switch firstLine(string(out)) {
	case "unsat":
		r.status = "unsat"
	case "sat":
		r.status = "sat"
	}
	return r
}
