package main

import (
	"fmt"
	"go/types"
	"math/big"
	"sort"
	"strings"
)

// Mode selects how Go integers are represented.
type Mode int

const (
	ModeInt Mode = iota // mathematical integers; unsigned ops wrap exactly (mod 2^w), signed ops carry overflow obligations
	ModeBV              // exact fixed-width bit-vectors
)

func (m Mode) String() string {
	if m == ModeBV {
		return "bv"
	}
	return "int"
}

// ---- identifier mangling ----

func mangle(s string) string {
	var b strings.Builder
	for _, r := range s {
		switch {
		case r >= 'a' && r <= 'z', r >= 'A' && r <= 'Z', r >= '0' && r <= '9', r == '_':
			b.WriteRune(r)
		case r == '.':
			b.WriteString(".")
		case r == '*':
			b.WriteString("ptr_")
		case r == '[':
			b.WriteString("L")
		case r == ']':
			b.WriteString("J")
		case r == '/':
			b.WriteString("_")
		case r == ' ':
		default:
			b.WriteString(fmt.Sprintf("_%x_", r))
		}
	}
	return b.String()
}

// ---- term helpers (terms are SMT-LIB strings) ----

func app(f string, args ...string) string {
	if len(args) == 0 {
		return f
	}
	return "(" + f + " " + strings.Join(args, " ") + ")"
}

func and(xs ...string) string {
	var ys []string
	for _, x := range xs {
		if x == "true" {
			continue
		}
		if x == "false" {
			return "false"
		}
		ys = append(ys, x)
	}
	if len(ys) == 0 {
		return "true"
	}
	if len(ys) == 1 {
		return ys[0]
	}
	return app("and", ys...)
}

func or(xs ...string) string {
	var ys []string
	for _, x := range xs {
		if x == "false" {
			continue
		}
		if x == "true" {
			return "true"
		}
		ys = append(ys, x)
	}
	if len(ys) == 0 {
		return "false"
	}
	if len(ys) == 1 {
		return ys[0]
	}
	return app("or", ys...)
}

func not(x string) string {
	if x == "true" {
		return "false"
	}
	if x == "false" {
		return "true"
	}
	if strings.HasPrefix(x, "(not ") && balancedTail(x[5:len(x)-1]) {
		return x[5 : len(x)-1]
	}
	return app("not", x)
}

func balancedTail(s string) bool {
	d := 0
	for i, c := range s {
		if c == '(' {
			d++
		} else if c == ')' {
			d--
			if d == 0 && i != len(s)-1 {
				return false
			}
			if d < 0 {
				return false
			}
		} else if d == 0 && c == ' ' {
			return false
		}
	}
	return d == 0
}

func implies(a, b string) string {
	if a == "true" {
		return b
	}
	if a == "false" || b == "true" {
		return "true"
	}
	return app("=>", a, b)
}

func eq(a, b string) string {
	if a == b {
		return "true"
	}
	if isDigits(a) && isDigits(b) {
		return "false"
	}
	return app("=", a, b)
}

func isDigits(s string) bool {
	if s == "" {
		return false
	}
	for _, c := range s {
		if c < '0' || c > '9' {
			return false
		}
	}
	return true
}

func ite(c, a, b string) string {
	if c == "true" {
		return a
	}
	if c == "false" {
		return b
	}
	if a == b {
		return a
	}
	return app("ite", c, a, b)
}

func sel(a, i string) string      { return app("select", a, i) }
func sto(a, i, v string) string   { return app("store", a, i, v) }
func intLit(n int64) string {
	if n < 0 {
		return fmt.Sprintf("(- %d)", -n)
	}
	return fmt.Sprintf("%d", n)
}
func bigLit(n *big.Int) string {
	if n.Sign() < 0 {
		return "(- " + new(big.Int).Neg(n).String() + ")"
	}
	return n.String()
}
func bvLit(n *big.Int, w int) string {
	m := new(big.Int).Lsh(big.NewInt(1), uint(w))
	v := new(big.Int).Mod(n, m)
	return fmt.Sprintf("(_ bv%s %d)", v.String(), w)
}

func pow2(w int) *big.Int { return new(big.Int).Lsh(big.NewInt(1), uint(w)) }

// ---- sorts ----

type Sorts struct{ mode Mode }

func (s Sorts) Idx() string {
	if s.mode == ModeBV {
		return "(_ BitVec 64)"
	}
	return "Int"
}

func intWidth(b *types.Basic) (w int, signed bool, ok bool) {
	switch b.Kind() {
	case types.Int8:
		return 8, true, true
	case types.Int16:
		return 16, true, true
	case types.Int32:
		return 32, true, true
	case types.Int64, types.Int, types.UntypedInt:
		return 64, true, true
	case types.Uint8:
		return 8, false, true
	case types.Uint16:
		return 16, false, true
	case types.Uint32:
		return 32, false, true
	case types.Uint64, types.Uint, types.Uintptr:
		return 64, false, true
	case types.UntypedRune:
		return 32, true, true
	}
	return 0, false, false
}

func isIntType(t types.Type) (int, bool, bool) {
	if b, ok := t.Underlying().(*types.Basic); ok {
		return intWidth(b)
	}
	return 0, false, false
}

// leaf describes one SMT-level component of a flattened Go value.
type leaf struct {
	suffix string
	sort   string
	typ    types.Type // Go type of the leaf when it is a Go scalar, else nil (slice components etc.)
	role   string     // "", "ref", "off", "len", "cap", "tag", "pay"
}

func (s Sorts) scalarSort(t types.Type) (string, bool) {
	switch u := t.Underlying().(type) {
	case *types.Basic:
		if w, _, ok := intWidth(u); ok {
			if s.mode == ModeBV {
				return fmt.Sprintf("(_ BitVec %d)", w), true
			}
			return "Int", true
		}
		switch u.Kind() {
		case types.Bool, types.UntypedBool:
			return "Bool", true
		case types.Float32:
			return "F32", true
		case types.Float64, types.UntypedFloat:
			return "F64", true
		case types.String, types.UntypedString:
			return "Str", true
		case types.UnsafePointer:
			return "Int", true
		case types.UntypedNil:
			return "Int", true
		}
	case *types.Pointer, *types.Map, *types.Chan, *types.Signature:
		return "Int", true
	case *types.Array:
		if n, ok := packedArray(t); ok {
			if s.mode == ModeBV {
				return fmt.Sprintf("(_ BitVec %d)", 8*n), true
			}
			return "Int", true
		}
		es, ok := s.scalarSort(u.Elem())
		if !ok {
			return "", false
		}
		return "(Array " + s.Idx() + " " + es + ")", true
	}
	return "", false
}

// packedArray: small byte arrays ([16]byte UUIDs, [8]byte buffers) are single scalars (an integer < 256^n, or a bit-vector),
// so that they can be map keys for every solver and equality is exactly Go's array equality.
func packedArray(t types.Type) (int, bool) {
	a, ok := t.Underlying().(*types.Array)
	if !ok {
		return 0, false
	}
	b, ok := a.Elem().Underlying().(*types.Basic)
	if !ok || b.Kind() != types.Uint8 || a.Len() > 32 || a.Len() == 0 {
		return 0, false
	}
	return int(a.Len()), true
}

func (s Sorts) leaves(t types.Type) []leaf {
	if ss, ok := s.scalarSort(t); ok {
		return []leaf{{"", ss, t, ""}}
	}
	switch u := t.Underlying().(type) {
	case *types.Slice:
		return []leaf{{".ref", "Int", nil, "ref"}, {".off", s.Idx(), nil, "off"}, {".len", s.Idx(), nil, "len"}, {".cap", s.Idx(), nil, "cap"}}
	case *types.Interface:
		return []leaf{{".tag", "Int", nil, "tag"}, {".pay", "Int", nil, "pay"}}
	case *types.Struct:
		var out []leaf
		for i := 0; i < u.NumFields(); i++ {
			f := u.Field(i)
			for _, l := range s.leaves(f.Type()) {
				out = append(out, leaf{"." + f.Name() + l.suffix, l.sort, l.typ, l.role})
			}
		}
		return out
	case *types.Tuple:
		var out []leaf
		for i := 0; i < u.Len(); i++ {
			for _, l := range s.leaves(u.At(i).Type()) {
				out = append(out, leaf{fmt.Sprintf(".%d%s", i, l.suffix), l.sort, l.typ, l.role})
			}
		}
		return out
	}
	panic(fmt.Sprintf("leaves: unsupported type %s (%T)", t, t.Underlying()))
}

// typeKey is the name fragment used for heap arrays of a Go type.
func typeKey(t types.Type) string {
	return mangle(typeShort(t))
}

// ---- declarations ----

type Decls struct {
	order []string
	set   map[string]string
}

func NewDecls() *Decls { return &Decls{set: map[string]string{}} }

func (d *Decls) Const(name, sort string) string {
	return d.Fun(name, nil, sort)
}

func (d *Decls) Fun(name string, args []string, sort string) string {
	line := fmt.Sprintf("(declare-fun %s (%s) %s)", name, strings.Join(args, " "), sort)
	if old, ok := d.set[name]; ok {
		if old != line {
			panic("conflicting declaration of " + name + ": " + old + " vs " + line)
		}
		return name
	}
	d.set[name] = line
	d.order = append(d.order, name)
	return name
}

func (d *Decls) Lines() []string {
	out := make([]string, 0, len(d.order))
	for _, n := range d.order {
		out = append(out, d.set[n])
	}
	return out
}

func sortedKeys[V any](m map[string]V) []string {
	ks := make([]string, 0, len(m))
	for k := range m {
		ks = append(ks, k)
	}
	sort.Strings(ks)
	return ks
}
