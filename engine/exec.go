package main

import (
	"fmt"
	"go/constant"
	"go/token"
	"go/types"
	"math/big"
	"strings"

	"golang.org/x/tools/go/ssa"
)

var bigOne = big.NewInt(1)

// ---- obligations ----

func (x *Exec) query(st *State, goal string) string {
	return x.queryOpt(st, goal, false)
}

// queryOpt with light=true drops quantified path assumptions (sound: fewer hypotheses); used as a fast first attempt.
func (x *Exec) queryOpt(st *State, goal string, light bool) string {
	var b strings.Builder
	b.WriteString("(set-logic ALL)\n")
	b.WriteString("(declare-sort F32 0)\n(declare-sort F64 0)\n(declare-sort Str 0)\n")
	// the float axioms may declare isnan: compute them before the declarations are printed
	fltAx := x.floatAxioms()
	for _, l := range x.decls.Lines() {
		b.WriteString(l)
		b.WriteByte('\n')
	}
	for _, l := range x.preamble {
		b.WriteString(l)
		b.WriteByte('\n')
	}
	for _, l := range fltAx {
		b.WriteString(l)
		b.WriteByte('\n')
	}
	// string([]byte(s)) == s
	if _, a := x.decls.set["gstr.bytes"]; a {
		if _, c := x.decls.set["gstr.of"]; c && x.mode == ModeInt {
			b.WriteString("(assert (forall ((s Str)) (! (= (gstr.of (gstr.bytes s) 0 (gstr.len s)) s) :pattern ((gstr.bytes s)))))\n")
		}
	}
	for _, l := range st.lines {
		if light && strings.HasPrefix(l, "(assert ") && (strings.Contains(l, "(forall ") || strings.Contains(l, "(exists ")) {
			continue
		}
		b.WriteString(l)
		b.WriteByte('\n')
	}
	b.WriteString("(assert (not " + goal + "))\n(check-sat)\n")
	return b.String()
}

func (x *Exec) oblige(st *State, kind, label, pos, goal string, props []string) {
	if st.infeasible || x.dry > 0 {
		return
	}
	if goal == "true" {
		// trivially discharged; still counted
	}
	base := fmt.Sprintf("%s/%s", x.con.Name, kind)
	if label != "" {
		base += "#" + label
	}
	// several paths may produce the same named obligation: they are conjoined under one name (suffix @n per path instance)
	x.obSeen[base]++
	name := base
	if n := x.obSeen[base]; n > 1 {
		name = fmt.Sprintf("%s@%d", base, n)
	}
	if len(props) == 0 {
		props = x.con.Props
		if len(x.con.Safety) > 0 && (kind == "nopanic" || kind == "overflow" || strings.HasPrefix(kind, "pre@") || kind == "nofatal") {
			props = x.con.Safety
		}
	}
	ob := &Ob{Name: name, Kind: kind, Label: label, Func: x.con.Name, Pos: pos, Props: props, Goal: goal,
		Path: strings.Join(st.pathDesc, " ")}
	if goal == "true" {
		ob.Status = "discharged"
		ob.Solver = "trivial"
	} else {
		ob.Query = x.query(st, goal)
		if !strings.Contains(goal, "(forall ") && !strings.Contains(goal, "(exists ") {
			ob.Light = x.queryOpt(st, goal, true)
		}
	}
	x.obs = append(x.obs, ob)
}

// ---- constants ----

func (x *Exec) constVal(st *State, c *ssa.Const) Val {
	t := c.Type()
	if c.Value == nil {
		return x.zeroVal(t)
	}
	switch u := t.Underlying().(type) {
	case *types.Basic:
		if w, signed, ok := intWidth(u); ok {
			n, _ := new(big.Int).SetString(c.Value.ExactString(), 10)
			if n == nil {
				// rune/char constants
				iv, _ := constant.Int64Val(constant.ToInt(c.Value))
				n = big.NewInt(iv)
			}
			_ = signed
			if x.mode == ModeBV {
				return Val{T: t, K: KScalar, S: bvLit(n, w)}
			}
			return Val{T: t, K: KScalar, S: bigLit(n)}
		}
		switch u.Kind() {
		case types.Bool, types.UntypedBool:
			return Val{T: t, K: KScalar, S: fmt.Sprint(constant.BoolVal(c.Value))}
		case types.String, types.UntypedString:
			return Val{T: t, K: KScalar, S: x.strConst(st, constant.StringVal(c.Value))}
		case types.Float32, types.Float64, types.UntypedFloat:
			return Val{T: t, K: KScalar, S: x.fltConst(c.Value, u.Kind() == types.Float32)}
		}
	}
	x.unsupported("constant of type %s", t)
	return Val{}
}

func (x *Exec) strConst(st *State, s string) string {
	if s == "" {
		x.decls.Const("gstr.empty", "Str")
		x.ensurePre(eq(x.strLen("gstr.empty"), x.idxLit(0)))
		// there is one string of length zero
		x.ensurePre(fmt.Sprintf("(forall ((s Str)) (! (=> (= (gstr.len s) %s) (= s gstr.empty)) :pattern ((gstr.len s))))", x.idxLit(0)))
		return "gstr.empty"
	}
	if n, ok := x.strConsts[s]; ok {
		return n
	}
	n := fmt.Sprintf("str!%d", len(x.strConsts)+1)
	x.decls.Const(n, "Str")
	x.strConsts[s] = n
	x.ensurePre(eq(x.strLen(n), x.idxLit(int64(len(s)))))
	if len(s) <= 32 {
		// the bytes of a short literal are known ([]byte("hs") etc.)
		x.decls.Fun("gstr.bytes", []string{"Str"}, "(Array "+x.sorts.Idx()+" "+x.byteSort()+")")
		for i := 0; i < len(s); i++ {
			b := intLit(int64(s[i]))
			if x.mode == ModeBV {
				b = fmt.Sprintf("(_ bv%d 8)", s[i])
			}
			x.ensurePre(eq(sel(app("gstr.bytes", n), x.idxLit(int64(i))), b))
		}
	}
	return n
}

func (x *Exec) ensurePre(t string) {
	l := "(assert " + t + ")"
	for _, p := range x.preamble {
		if p == l {
			return
		}
	}
	x.preamble = append(x.preamble, l)
}

func (x *Exec) fltConst(v constant.Value, is32 bool) string {
	f, _ := constant.Float64Val(v)
	sort := "F64"
	pfx := "f64"
	if is32 {
		sort, pfx = "F32", "f32"
	}
	// a Go floating-point constant is a finite number: it is not NaN
	nan := x.decls.Fun(pfx+".isnan", []string{sort}, "Bool")
	if f == 0 {
		z := x.decls.Const(pfx+".zero", sort)
		x.ensurePre(not(app(nan, z)))
		return z
	}
	key := fmt.Sprintf("%s!%v", pfx, f)
	if n, ok := x.fltConsts[key]; ok {
		return n
	}
	n := fmt.Sprintf("%s.c%d", pfx, len(x.fltConsts)+1)
	x.decls.Const(n, sort)
	x.fltConsts[key] = n
	x.ensurePre(not(app(nan, n)))
	// the sign of a literal is known
	lt := x.decls.Fun(pfx+".lt", []string{sort, sort}, "Bool")
	z := x.decls.Const(pfx+".zero", sort)
	x.ensurePre(not(app(nan, z)))
	if f > 0 {
		x.ensurePre(app(lt, z, n))
	} else {
		x.ensurePre(app(lt, n, z))
	}
	return n
}

// ---- value lookup ----

func (x *Exec) get(st *State, fr *Frame, v ssa.Value) Val {
	switch c := v.(type) {
	case *ssa.Const:
		return x.constVal(st, c)
	case *ssa.Global:
		return x.globalAddr(c)
	case *ssa.Function:
		return Val{T: c.Type(), K: KFunc, S: x.funcId(c), Clo: &Closure{Fn: c}}
	case *ssa.FreeVar:
		for i, fv := range fr.fn.FreeVars {
			if fv == c {
				if i < len(fr.free) {
					return fr.free[i]
				}
			}
		}
		x.unsupported("free variable %s without binding", c.Name())
	case *ssa.Builtin:
		return Val{T: c.Type(), K: KFunc, S: "0"}
	}
	if val, ok := fr.regs[v]; ok {
		return val
	}
	x.unsupported("value %s (%T) not defined on this path in %s", v.Name(), v, fr.fn.Name())
	return Val{}
}

func (x *Exec) funcId(f *ssa.Function) string {
	n := "fn!" + mangle(FuncName(f))
	x.decls.Const(n, "Int")
	x.ensurePre(app("<", "0", n))
	return n
}

func (x *Exec) globalAddr(g *ssa.Global) Val {
	el := g.Type().(*types.Pointer).Elem()
	name := "glob_" + mangle(shortName(g.Pkg.Pkg.Path())) + "." + g.Name()
	return Val{T: g.Type(), K: KAddr, A: &Addr{Prefix: name, T: el, Global: true}}
}

// ---- arithmetic ----

func (x *Exec) wrapInt(t string, w int, signed bool) string {
	m := pow2(w).String()
	if !signed {
		return app("mod", t, m)
	}
	h := pow2(w - 1).String()
	return app("-", app("mod", app("+", t, h), m), h)
}

func goDivInt(a, b string) string {
	// Go truncates toward zero
	return ite(app(">=", a, "0"),
		ite(app(">", b, "0"), app("div", a, b), app("-", app("div", a, app("-", b)))),
		ite(app(">", b, "0"), app("-", app("div", app("-", a), b)), app("div", app("-", a), app("-", b))))
}

func goRemInt(a, b string) string {
	return app("-", a, app("*", b, goDivInt(a, b)))
}

func isLit(t string) (*big.Int, bool) {
	n, ok := new(big.Int).SetString(t, 10)
	if ok {
		return n, true
	}
	if strings.HasPrefix(t, "(- ") && strings.HasSuffix(t, ")") {
		n, ok := new(big.Int).SetString(t[3:len(t)-1], 10)
		if ok {
			return n.Neg(n), true
		}
	}
	return nil, false
}

func (x *Exec) binop(st *State, fr *Frame, op token.Token, a, b Val, rt types.Type, pos string) Val {
	t := a.T
	// comparisons on composite kinds
	switch a.K {
	case KIface:
		e := and(eq(a.Tag, b.Tag), eq(a.Pay, b.Pay))
		if op == token.NEQ {
			e = not(e)
		}
		return Val{T: rt, K: KScalar, S: e}
	case KSlice:
		// only comparison with nil is legal
		e := eq(a.Ref, "0")
		if b.Ref != "0" {
			e = eq(b.Ref, "0")
		}
		if op == token.NEQ {
			e = not(e)
		}
		return Val{T: rt, K: KScalar, S: e}
	case KStruct:
		at, bt := x.flatten(a), x.flatten(b)
		var cs []string
		for i := range at {
			cs = append(cs, eq(at[i], bt[i]))
		}
		e := and(cs...)
		if op == token.NEQ {
			e = not(e)
		}
		return Val{T: rt, K: KScalar, S: e}
	case KFunc:
		e := eq(a.S, b.S)
		if op == token.NEQ {
			e = not(e)
		}
		return Val{T: rt, K: KScalar, S: e}
	}
	bt, isBasic := t.Underlying().(*types.Basic)
	if !isBasic {
		// pointers, maps, chans, arrays: equality only
		e := eq(a.S, b.S)
		switch op {
		case token.EQL:
		case token.NEQ:
			e = not(e)
		default:
			x.unsupported("binop %s on %s", op, t)
		}
		return Val{T: rt, K: KScalar, S: e}
	}
	if w, signed, ok := intWidth(bt); ok {
		return x.intBinop(st, op, a, b, rt, w, signed, pos)
	}
	switch bt.Kind() {
	case types.Bool, types.UntypedBool:
		switch op {
		case token.EQL:
			return Val{T: rt, K: KScalar, S: eq(a.S, b.S)}
		case token.NEQ:
			return Val{T: rt, K: KScalar, S: not(eq(a.S, b.S))}
		case token.LAND, token.AND:
			return Val{T: rt, K: KScalar, S: and(a.S, b.S)}
		case token.LOR, token.OR:
			return Val{T: rt, K: KScalar, S: or(a.S, b.S)}
		}
	case types.String, types.UntypedString:
		switch op {
		case token.EQL:
			return Val{T: rt, K: KScalar, S: eq(a.S, b.S)}
		case token.NEQ:
			return Val{T: rt, K: KScalar, S: not(eq(a.S, b.S))}
		case token.ADD:
			x.decls.Fun("gstr.concat", []string{"Str", "Str"}, "Str")
			r := app("gstr.concat", a.S, b.S)
			st.assume(eq(x.strLen(r), x.idxAdd(x.strLen(a.S), x.strLen(b.S))))
			return Val{T: rt, K: KScalar, S: r}
		}
	case types.Float32, types.Float64, types.UntypedFloat:
		pfx, sort := "f64", "F64"
		if bt.Kind() == types.Float32 {
			pfx, sort = "f32", "F32"
		}
		switch op {
		case token.LSS, token.GTR, token.LEQ, token.GEQ:
			lt := x.decls.Fun(pfx+".lt", []string{sort, sort}, "Bool")
			le := x.decls.Fun(pfx+".le", []string{sort, sort}, "Bool")
			switch op {
			case token.LSS:
				return Val{T: rt, K: KScalar, S: app(lt, a.S, b.S)}
			case token.GTR:
				return Val{T: rt, K: KScalar, S: app(lt, b.S, a.S)}
			case token.LEQ:
				return Val{T: rt, K: KScalar, S: app(le, a.S, b.S)}
			default:
				return Val{T: rt, K: KScalar, S: app(le, b.S, a.S)}
			}
		case token.EQL, token.NEQ:
			fe := x.decls.Fun(pfx+".eq", []string{sort, sort}, "Bool")
			e := app(fe, a.S, b.S)
			if op == token.NEQ {
				e = not(e)
			}
			return Val{T: rt, K: KScalar, S: e}
		case token.ADD, token.SUB, token.MUL, token.QUO:
			name := map[token.Token]string{token.ADD: "add", token.SUB: "sub", token.MUL: "mul", token.QUO: "div"}[op]
			f := x.decls.Fun(pfx+"."+name, []string{sort, sort}, sort)
			return Val{T: rt, K: KScalar, S: app(f, a.S, b.S)}
		}
	case types.UnsafePointer:
		e := eq(a.S, b.S)
		if op == token.NEQ {
			e = not(e)
		}
		return Val{T: rt, K: KScalar, S: e}
	}
	x.unsupported("binop %s on %s", op, t)
	return Val{}
}

func (x *Exec) intBinop(st *State, op token.Token, a, b Val, rt types.Type, w int, signed bool, pos string) Val {
	if x.mode == ModeBV {
		return x.bvBinop(st, op, a, b, rt, w, signed, pos)
	}
	A, B := a.S, b.S
	cmp := func(f string) Val { return Val{T: rt, K: KScalar, S: app(f, A, B)} }
	switch op {
	case token.EQL:
		return Val{T: rt, K: KScalar, S: eq(A, B)}
	case token.NEQ:
		return Val{T: rt, K: KScalar, S: not(eq(A, B))}
	case token.LSS:
		return cmp("<")
	case token.LEQ:
		return cmp("<=")
	case token.GTR:
		return cmp(">")
	case token.GEQ:
		return cmp(">=")
	}
	var r string
	switch op {
	case token.ADD:
		r = app("+", A, B)
	case token.SUB:
		r = app("-", A, B)
	case token.MUL:
		r = app("*", A, B)
	case token.QUO:
		x.oblige(st, "nopanic", "div", pos, not(eq(B, "0")), nil)
		st.assume(not(eq(B, "0")))
		if !signed {
			r = app("div", A, B)
		} else {
			r = goDivInt(A, B)
		}
		return Val{T: rt, K: KScalar, S: st.define(x, "q", "Int", r)}
	case token.REM:
		x.oblige(st, "nopanic", "div", pos, not(eq(B, "0")), nil)
		st.assume(not(eq(B, "0")))
		if !signed {
			r = app("mod", A, B)
		} else {
			r = goRemInt(A, B)
		}
		return Val{T: rt, K: KScalar, S: st.define(x, "r", "Int", r)}
	case token.SHL:
		if n, ok := isLit(B); ok && n.IsInt64() && n.Int64() < 64 {
			r = app("*", A, pow2(int(n.Int64())).String())
		} else {
			x.unsupported("symbolic shift in int mode")
		}
	case token.SHR:
		if n, ok := isLit(B); ok && n.IsInt64() && n.Int64() < 64 {
			r = app("div", A, pow2(int(n.Int64())).String())
			return Val{T: rt, K: KScalar, S: r}
		}
		x.unsupported("symbolic shift in int mode")
	case token.AND:
		if n, ok := isLit(B); ok {
			m := new(big.Int).Add(n, bigOne)
			if m.BitLen() > 0 && new(big.Int).And(m, n).Sign() == 0 && !signed {
				return Val{T: rt, K: KScalar, S: app("mod", A, m.String())}
			}
		}
		if signed {
			x.unsupported("bitwise and on signed operands in int mode")
		}
		// sound approximation: 0 <= a&b <= min(a,b)
		rv := x.freshConst("band", "Int")
		st.assume(and(app("<=", "0", rv), app("<=", rv, A), app("<=", rv, B)))
		return Val{T: rt, K: KScalar, S: rv}
	case token.OR, token.XOR, token.AND_NOT:
		if signed {
			x.unsupported("bitwise %s on signed operands in int mode", op)
		}
		// sound approximation of the bit operation on non-negative integers, exact where the operands provably occupy
		// disjoint bit ranges (the shift-and-or idiom of encoding/binary): then a|b = a^b = a+b
		rv := x.freshConst("bits", "Int")
		switch op {
		case token.OR:
			st.assume(and(app("<=", A, rv), app("<=", B, rv), app("<=", rv, app("+", A, B))))
		case token.XOR:
			st.assume(and(app("<=", "0", rv), app("<=", rv, app("+", A, B))))
		case token.AND_NOT:
			st.assume(and(app("<=", "0", rv), app("<=", rv, A)))
			return Val{T: rt, K: KScalar, S: rv}
		}
		for k := 8; k < w; k += 8 {
			p := pow2(k).String()
			disj := or(and(eq(app("mod", A, p), "0"), app("<", B, p)), and(eq(app("mod", B, p), "0"), app("<", A, p)))
			st.assume(implies(disj, eq(rv, app("+", A, B))))
		}
		return Val{T: rt, K: KScalar, S: rv}
	default:
		x.unsupported("int binop %s", op)
	}
	if !signed {
		r = x.wrapInt(r, w, false)
		return Val{T: rt, K: KScalar, S: st.define(x, "u", "Int", r)}
	}
	// signed: overflow obligation, then mathematical result
	if !x.trusts("nooverflow") {
		lo, hi := intRange(w, true)
		x.oblige(st, "overflow", "", pos, and(app("<=", lo, r), app("<=", r, hi)), nil)
	}
	lo, hi := intRange(w, true)
	st.assume(and(app("<=", lo, r), app("<=", r, hi)))
	return Val{T: rt, K: KScalar, S: st.define(x, "s", "Int", r)}
}

func (x *Exec) trusts(what string) bool {
	for _, t := range x.con.Trust {
		if strings.HasPrefix(t, what) {
			return true
		}
	}
	return false
}

func (x *Exec) bvBinop(st *State, op token.Token, a, b Val, rt types.Type, w int, signed bool, pos string) Val {
	A, B := a.S, b.S
	pick := func(s, u string) string {
		if signed {
			return s
		}
		return u
	}
	zero := fmt.Sprintf("(_ bv0 %d)", w)
	var r string
	switch op {
	case token.EQL:
		return Val{T: rt, K: KScalar, S: eq(A, B)}
	case token.NEQ:
		return Val{T: rt, K: KScalar, S: not(eq(A, B))}
	case token.LSS:
		return Val{T: rt, K: KScalar, S: app(pick("bvslt", "bvult"), A, B)}
	case token.LEQ:
		return Val{T: rt, K: KScalar, S: app(pick("bvsle", "bvule"), A, B)}
	case token.GTR:
		return Val{T: rt, K: KScalar, S: app(pick("bvsgt", "bvugt"), A, B)}
	case token.GEQ:
		return Val{T: rt, K: KScalar, S: app(pick("bvsge", "bvuge"), A, B)}
	case token.ADD:
		r = app("bvadd", A, B)
	case token.SUB:
		r = app("bvsub", A, B)
	case token.MUL:
		r = app("bvmul", A, B)
	case token.QUO:
		x.oblige(st, "nopanic", "div", pos, not(eq(B, zero)), nil)
		st.assume(not(eq(B, zero)))
		r = app(pick("bvsdiv", "bvudiv"), A, B)
	case token.REM:
		x.oblige(st, "nopanic", "div", pos, not(eq(B, zero)), nil)
		st.assume(not(eq(B, zero)))
		r = app(pick("bvsrem", "bvurem"), A, B)
	case token.AND:
		r = app("bvand", A, B)
	case token.OR:
		r = app("bvor", A, B)
	case token.XOR:
		r = app("bvxor", A, B)
	case token.AND_NOT:
		r = app("bvand", A, app("bvnot", B))
	case token.SHL, token.SHR:
		bw, _, _ := isIntType(b.T)
		cnt := B
		if bw < w {
			cnt = fmt.Sprintf("((_ zero_extend %d) %s)", w-bw, B)
		} else if bw > w {
			// saturate
			big := app("bvuge", B, fmt.Sprintf("(_ bv%d %d)", w, bw))
			cnt = ite(big, fmt.Sprintf("(_ bv%d %d)", w, w), fmt.Sprintf("((_ extract %d 0) %s)", w-1, B))
		}
		if op == token.SHL {
			r = app("bvshl", A, cnt)
		} else {
			r = app(pick("bvashr", "bvlshr"), A, cnt)
		}
	default:
		x.unsupported("bv binop %s", op)
	}
	return Val{T: rt, K: KScalar, S: st.define(x, "b", fmt.Sprintf("(_ BitVec %d)", w), r)}
}

func (x *Exec) convert(st *State, v Val, to types.Type, pos string) Val {
	from := v.T
	fw, fs, fok := isIntType(from)
	tw, ts, tok := isIntType(to)
	if fok && tok {
		if x.mode == ModeBV {
			var r string
			switch {
			case tw == fw:
				r = v.S
			case tw < fw:
				r = fmt.Sprintf("((_ extract %d 0) %s)", tw-1, v.S)
			case fs:
				r = fmt.Sprintf("((_ sign_extend %d) %s)", tw-fw, v.S)
			default:
				r = fmt.Sprintf("((_ zero_extend %d) %s)", tw-fw, v.S)
			}
			return Val{T: to, K: KScalar, S: r}
		}
		// int mode: wrap unless range of source fits in target
		fits := false
		if fs == ts && tw >= fw {
			fits = true
		}
		if !fs && ts && tw > fw {
			fits = true
		}
		if fits {
			return Val{T: to, K: KScalar, S: v.S}
		}
		if n, ok := isLit(v.S); ok {
			lo, hi := new(big.Int), new(big.Int)
			if ts {
				lo.Neg(pow2(tw - 1))
				hi.Sub(pow2(tw-1), bigOne)
			} else {
				hi.Sub(pow2(tw), bigOne)
			}
			if n.Cmp(lo) >= 0 && n.Cmp(hi) <= 0 {
				return Val{T: to, K: KScalar, S: v.S}
			}
		}
		if x.con != nil && x.trusts("check lossless") {
			// a narrowing conversion that writes a length or count must not lose information
			lo, hi := intRange(tw, ts)
			x.oblige(st, "lossless", "", pos, and(app("<=", lo, v.S), app("<=", v.S, hi)), nil)
		}
		r := st.define(x, "cv", "Int", x.wrapInt(v.S, tw, ts))
		nv := Val{T: to, K: KScalar, S: r}
		return nv
	}
	fb, fIsB := from.Underlying().(*types.Basic)
	tb, tIsB := to.Underlying().(*types.Basic)
	// pointer <-> unsafe.Pointer
	if tIsB && tb.Kind() == types.UnsafePointer {
		if v.K == KAddr {
			x.unsupported("interior pointer converted to unsafe.Pointer")
		}
		return Val{T: to, K: KScalar, S: v.S}
	}
	if fIsB && fb.Kind() == types.UnsafePointer {
		return Val{T: to, K: KScalar, S: v.S}
	}
	// string <-> []byte
	if fIsB && fb.Info()&types.IsString != 0 {
		if sl, ok := to.Underlying().(*types.Slice); ok {
			_ = sl
			// fresh byte slice with length strlen and content tied to the string by an uninterpreted function
			ref := x.allocRef(st, "bytes")
			x.decls.Fun("gstr.bytes", []string{"Str"}, "(Array "+x.sorts.Idx()+" "+x.byteSort()+")")
			memName := "mem_uint8"
			ms := "(Array Int (Array " + x.sorts.Idx() + " " + x.byteSort() + "))"
			arr := x.heapArr(st, memName, ms)
			x.heapSet(st, memName, ms, sto(arr, ref, app("gstr.bytes", v.S)))
			n := x.strLen(v.S)
			// Go: string([]byte(s)) == s (instance for this string; the converse direction is not assumed)
			x.decls.Fun("gstr.of", []string{"(Array " + x.sorts.Idx() + " " + x.byteSort() + ")", x.sorts.Idx(), x.sorts.Idx()}, "Str")
			st.assume(eq(app("gstr.of", app("gstr.bytes", v.S), x.idxLit(0), n), v.S))
			return Val{T: to, K: KSlice, Ref: ref, Off: x.idxLit(0), Len: n, Cap: n}
		}
	}
	if tIsB && tb.Info()&types.IsString != 0 {
		if v.K == KSlice {
			// string(bytes): uninterpreted in (content array, off, len)
			ms := "(Array Int (Array " + x.sorts.Idx() + " " + x.byteSort() + "))"
			arr := x.heapArr(st, "mem_uint8", ms)
			x.decls.Fun("gstr.of", []string{"(Array " + x.sorts.Idx() + " " + x.byteSort() + ")", x.sorts.Idx(), x.sorts.Idx()}, "Str")
			r := st.define(x, "str", "Str", app("gstr.of", sel(arr, v.Ref), v.Off, v.Len))
			st.assume(eq(x.strLen(r), v.Len))
			return Val{T: to, K: KScalar, S: r}
		}
	}
	// floats
	if fIsB && tIsB && fb.Info()&types.IsFloat != 0 && tb.Info()&types.IsFloat != 0 {
		if fb.Kind() == tb.Kind() {
			return Val{T: to, K: KScalar, S: v.S}
		}
		if tb.Kind() == types.Float64 {
			f := x.decls.Fun("f32.to_f64", []string{"F32"}, "F64")
			return Val{T: to, K: KScalar, S: app(f, v.S)}
		}
		f := x.decls.Fun("f64.to_f32", []string{"F64"}, "F32")
		return Val{T: to, K: KScalar, S: app(f, v.S)}
	}
	if fok && tIsB && tb.Info()&types.IsFloat != 0 {
		ss, _ := x.sorts.scalarSort(from)
		ts2, _ := x.sorts.scalarSort(to)
		f := x.decls.Fun("cvt."+mangle(typeShort(from))+".to."+mangle(typeShort(to)), []string{ss}, ts2)
		return Val{T: to, K: KScalar, S: app(f, v.S)}
	}
	if tok && fIsB && fb.Info()&types.IsFloat != 0 {
		ss, _ := x.sorts.scalarSort(from)
		ts2, _ := x.sorts.scalarSort(to)
		f := x.decls.Fun("cvt."+mangle(typeShort(from))+".to."+mangle(typeShort(to)), []string{ss}, ts2)
		nv := Val{T: to, K: KScalar, S: st.define(x, "fi", ts2, app(f, v.S))}
		x.assumeTyping(st, nv)
		return nv
	}
	x.unsupported("convert %s -> %s", from, to)
	return Val{}
}

func (x *Exec) byteSort() string {
	if x.mode == ModeBV {
		return "(_ BitVec 8)"
	}
	return "Int"
}

// retype changes the static Go type of a value without changing its representation.
func retype(v Val, t types.Type) Val {
	v.T = t
	if v.K == KStruct {
		if st, ok := t.Underlying().(*types.Struct); ok {
			fs := make([]Val, len(v.Fs))
			for i := range v.Fs {
				fs[i] = retype(v.Fs[i], st.Field(i).Type())
			}
			v.Fs = fs
		}
	}
	return v
}

// ---- loops ----

type LoopInfo struct {
	headers   map[*ssa.BasicBlock]int // header -> ordinal (source order)
	body      map[*ssa.BasicBlock]map[*ssa.BasicBlock]bool
	backEdges map[*ssa.BasicBlock]map[*ssa.BasicBlock]bool // header -> set of back-edge sources
}

func (x *Exec) loops(fn *ssa.Function) *LoopInfo {
	if li, ok := x.loopInfo[fn]; ok {
		return li
	}
	li := &LoopInfo{headers: map[*ssa.BasicBlock]int{}, body: map[*ssa.BasicBlock]map[*ssa.BasicBlock]bool{},
		backEdges: map[*ssa.BasicBlock]map[*ssa.BasicBlock]bool{}}
	for _, b := range fn.Blocks {
		for _, s := range b.Succs {
			if s.Dominates(b) {
				// back edge b -> s
				if li.backEdges[s] == nil {
					li.backEdges[s] = map[*ssa.BasicBlock]bool{}
					li.body[s] = map[*ssa.BasicBlock]bool{s: true}
				}
				li.backEdges[s][b] = true
				// natural loop
				stack := []*ssa.BasicBlock{b}
				for len(stack) > 0 {
					n := stack[len(stack)-1]
					stack = stack[:len(stack)-1]
					if li.body[s][n] {
						continue
					}
					li.body[s][n] = true
					for _, p := range n.Preds {
						stack = append(stack, p)
					}
				}
			}
		}
	}
	// ordinals by source position of the header's first instruction with a position (fallback: block index)
	type hp struct {
		b   *ssa.BasicBlock
		pos token.Pos
	}
	var hs []hp
	for h := range li.backEdges {
		p := token.NoPos
		// take the minimum valid position over instructions of all body blocks: robust "loop start"
		for bb := range li.body[h] {
			for _, in := range bb.Instrs {
				if ip := in.Pos(); ip.IsValid() && (p == token.NoPos || ip < p) {
					p = ip
				}
			}
		}
		hs = append(hs, hp{h, p})
	}
	for i := 0; i < len(hs); i++ {
		for j := i + 1; j < len(hs); j++ {
			if hs[j].pos < hs[i].pos || (hs[j].pos == hs[i].pos && hs[j].b.Index < hs[i].b.Index) {
				hs[i], hs[j] = hs[j], hs[i]
			}
		}
	}
	for i, h := range hs {
		li.headers[h.b] = i + 1
	}
	x.loopInfo[fn] = li
	return li
}

var _ = constant.MakeBool

// floatAxioms: the declared strict weak order on non-NaN floats (trusted abstraction, enabled by `trust floatorder`).
func (x *Exec) floatAxioms() []string {
	if !x.trusts("floatorder") {
		return nil
	}
	var out []string
	for _, p := range [][2]string{{"f32", "F32"}, {"f64", "F64"}} {
		pfx, s := p[0], p[1]
		_, hasLt := x.decls.set[pfx+".lt"]
		_, hasEq := x.decls.set[pfx+".eq"]
		if !hasLt && !hasEq {
			continue
		}
		x.decls.Fun(pfx+".isnan", []string{s}, "Bool")
		lt, nan := pfx+".lt", pfx+".isnan"
		if !hasLt {
			out = append(out, fmt.Sprintf("(assert (forall ((a %s)) (= (%s.eq a a) (not (%s a)))))", s, pfx, nan))
			continue
		}
		out = append(out,
			fmt.Sprintf("(assert (forall ((a %s) (b %s)) (=> (%s a b) (not (%s b a)))))", s, s, lt, lt),
			fmt.Sprintf("(assert (forall ((a %s) (b %s) (c %s)) (=> (and (%s a b) (%s b c)) (%s a c))))", s, s, s, lt, lt, lt),
			fmt.Sprintf("(assert (forall ((a %s) (b %s) (c %s)) (=> (and (not (%s a)) (not (%s b)) (not (%s c)) (not (%s a b)) (not (%s b c))) (not (%s a c)))))", s, s, s, nan, nan, nan, lt, lt, lt),
			fmt.Sprintf("(assert (forall ((a %s) (b %s)) (=> (%s a b) (and (not (%s a)) (not (%s b))))))", s, s, lt, nan, nan))
		if _, ok := x.decls.set[pfx+".eq"]; ok {
			// IEEE: x == x holds exactly for the values that are not NaN (the idiom `if d != d`)
			out = append(out, fmt.Sprintf("(assert (forall ((a %s)) (= (%s.eq a a) (not (%s a)))))", s, pfx, nan))
		}
	}
	return out
}
