package main

import (
	"fmt"
	"go/constant"
	"go/token"
	"go/types"
	"strings"
)

type Env struct {
	x       *Exec
	st      *State
	old     *State
	vars    map[string]Val
	pkgPath string
	wrap    bool // arithmetic wraps like the machine (contracts of `arith bv` functions used from int mode)
	nq      *int
	lookup  func(name string) (Val, bool) // extra resolver (locals)
	noGhost bool                          // contract of a callee: the caller's ghost variables are not in scope
	ghostSt *State                        // ghost variables are read from this state (old() only rewinds the heap)
}

type specErr struct{ msg string }

func (e *Env) fail(format string, a ...interface{}) {
	panic(specErr{fmt.Sprintf(format, a...)})
}

func (e *Env) with(vars map[string]Val) *Env {
	n := *e
	n.vars = make(map[string]Val, len(e.vars)+len(vars))
	for k, v := range e.vars {
		n.vars[k] = v
	}
	for k, v := range vars {
		n.vars[k] = v
	}
	return &n
}

func (e *Env) inState(st *State) *Env {
	n := *e
	if n.ghostSt == nil {
		n.ghostSt = e.st
	}
	n.st = st
	return &n
}

func boolVal(s string) Val { return Val{T: types.Typ[types.Bool], K: KScalar, S: s} }

// trBool translates an expression expected to be boolean.
func (e *Env) trBool(ex Expr) string {
	v := e.tr(ex)
	if v.K != KScalar {
		e.fail("boolean expected: %s", ex)
	}
	return v.S
}

func (x *Exec) loadPure(st *State, a *Addr) Val {
	if n, ok := x.packedObj(a); ok {
		hs := "(Array Int (Array " + x.sorts.Idx() + " " + x.byteSort() + "))"
		arr := x.heapArr(st, a.Prefix, hs)
		return Val{T: a.T, K: KScalar, S: x.packBytes(sel(arr, a.Idx[0]), n)}
	}
	ls := x.sorts.leaves(a.T)
	terms := make([]string, len(ls))
	for i, l := range ls {
		name := a.Prefix + l.suffix
		x.markRef(name, l)
		arr := x.heapArr(st, name, x.leafHeapSort(a, l))
		terms[i] = x.readAt(arr, a, l)
	}
	v := x.unflatten(a.T, terms)
	if x.collectTyping {
		idx := ""
		if len(a.Idx) > 0 {
			idx = a.Idx[0]
		}
		x.pendingTyping = append(x.pendingTyping, v)
		x.pendingBound = append(x.pendingBound, "")
		x.pendingIdx = append(x.pendingIdx, idx)
		// per-leaf allocation bounds
		for i, l := range ls {
			if !isRefLeaf(l) || strings.HasPrefix(l.sort, "(Array") || idx == "" {
				continue
			}
			x.pendingLeaf = append(x.pendingLeaf, [3]string{terms[i], x.refBound(st, a.Prefix+l.suffix), idx})
		}
	}
	return v
}

// assumeCollectedTyping adds well-typedness facts for ground values read while translating a clause.
func (x *Exec) assumeCollectedTyping(st *State) {
	for i, v := range x.pendingTyping {
		ground := true
		for _, t := range x.flatten(v) {
			if strings.Contains(t, "!q") {
				ground = false
			}
		}
		if ground && !strings.Contains(x.pendingIdx[i], "!q") {
			if x.pendingBound[i] == "" {
				x.assumeTyping(st, v)
			} else {
				x.assumeTypingBound(st, v, x.pendingBound[i], x.pendingIdx[i])
			}
		}
	}
	for _, t := range x.pendingLeaf {
		if strings.Contains(t[0], "!q") || strings.Contains(t[2], "!q") || t[1] == st.alloc {
			continue
		}
		st.assume(implies(app("<=", t[2], t[1]), app("<=", t[0], t[1])))
	}
	x.pendingLeaf = nil
	x.pendingTyping = nil
	x.pendingBound = nil
	x.pendingIdx = nil
}

func (e *Env) tr(ex Expr) Val {
	x := e.x
	switch n := ex.(type) {
	case EBool:
		return boolVal(fmt.Sprint(n.Val))
	case ENil:
		return Val{T: types.Typ[types.UntypedNil], K: KScalar, S: "0"}
	case ENum:
		return Val{T: types.Typ[types.UntypedInt], K: KScalar, S: bigLit(n.Val)}
	case EIdent:
		return e.ident(n.Name)
	case EUn:
		v := e.tr(n.X)
		switch n.Op {
		case "!":
			return boolVal(not(v.S))
		case "-":
			if x.mode == ModeBV && !isUntyped(v.T) {
				return Val{T: v.T, K: KScalar, S: app("bvneg", v.S)}
			}
			if lit, ok := isLit(v.S); ok {
				return Val{T: v.T, K: KScalar, S: bigLit(lit.Neg(lit))}
			}
			return Val{T: v.T, K: KScalar, S: app("-", v.S)}
		}
	case EBin:
		return e.bin(n)
	case EIte:
		c := e.trBool(n.C)
		a, b := e.tr(n.A), e.tr(n.B)
		a, b = e.unify(a, b)
		at, bt := x.flatten(a), x.flatten(b)
		out := make([]string, len(at))
		for i := range at {
			out[i] = ite(c, at[i], bt[i])
		}
		r := x.unflatten(a.T, out)
		return r
	case EQuant:
		return e.quant(n)
	case ESel:
		return e.selector(n)
	case EIndex:
		base := e.tr(n.X)
		if base.T == nil {
			// raw SMT array (ghost set such as $visited)
			k := e.tr(n.I)
			return boolVal(sel(base.S, k.S))
		}
		switch u := base.T.Underlying().(type) {
		case *types.Map:
			k := e.coerce(e.tr(n.I), u.Key())
			mv := x.mapGet(e.st, base, k.S)
			if x.collectTyping && mv.K != KStruct {
				prefix, _, vls := x.mapInfo(base.T)
				if len(vls) > 0 {
					x.pendingTyping = append(x.pendingTyping, mv)
					x.pendingBound = append(x.pendingBound, x.refBound(e.st, prefix+".val"+vls[0].suffix))
					x.pendingIdx = append(x.pendingIdx, base.S)
				}
			}
			return mv
		case *types.Slice:
			i := e.coerceIdx(e.tr(n.I))
			return x.loadPure(e.st, x.sliceElemAddr(base, i))
		case *types.Array:
			if pn, ok := packedArray(base.T); ok {
				iv := e.tr(n.I)
				lit, isL := isLit(iv.S)
				if !isL {
					e.fail("symbolic index into a packed byte array")
				}
				return e.scalarOf(u.Elem(), x.byteAt(base.S, int(lit.Int64()), pn))
			}
			i := e.coerceIdx(e.tr(n.I))
			return e.scalarOf(u.Elem(), sel(base.S, i))
		case *types.Pointer:
			if at, ok := u.Elem().Underlying().(*types.Array); ok {
				i := e.coerceIdx(e.tr(n.I))
				_ = at
				return x.loadPure(e.st, x.elemAddr(x.addrOf(base), i))
			}
		}
		e.fail("cannot index %s (type %s)", n.X, base.T)
	case ESlice:
		base := e.tr(n.X)
		if base.K != KSlice {
			e.fail("slice expression on non-slice %s", n.X)
		}
		lo := x.idxLit(0)
		hi := base.Len
		if n.Lo != nil {
			lo = e.coerceIdx(e.tr(n.Lo))
		}
		if n.Hi != nil {
			hi = e.coerceIdx(e.tr(n.Hi))
		}
		return Val{T: base.T, K: KSlice, Ref: base.Ref, Off: x.idxAdd(base.Off, lo), Len: x.idxSub(hi, lo), Cap: x.idxSub(base.Cap, lo)}
	case EDeref:
		p := e.tr(n.X)
		return x.loadPure(e.st, x.addrOf(p))
	case ECast:
		v := e.tr(n.X)
		t, err := x.C.ResolveType(x.P, e.pkgPath, n.T)
		if err != nil {
			e.fail("%v", err)
		}
		if v.K == KIface {
			return e.unboxPure(v, t)
		}
		return retype(v, t)
	case ECall:
		return e.call(n)
	case fixedVal:
		return n.v
	}
	e.fail("cannot translate %s", ex)
	return Val{}
}

func (e *Env) unboxPure(iv Val, t types.Type) Val {
	switch t.Underlying().(type) {
	case *types.Pointer, *types.Map, *types.Chan:
		return Val{T: t, K: KScalar, S: iv.Pay}
	case *types.Signature:
		return Val{T: t, K: KFunc, S: iv.Pay}
	case *types.Interface:
		iv.T = t
		return iv
	}
	return e.x.loadPure(e.st, &Addr{Prefix: "box_" + typeKey(t), Idx: []string{iv.Pay}, T: t})
}

func (e *Env) scalarOf(t types.Type, term string) Val {
	k := KScalar
	if _, ok := t.Underlying().(*types.Signature); ok {
		k = KFunc
	}
	return Val{T: t, K: k, S: term}
}

func isUntyped(t types.Type) bool {
	b, ok := t.(*types.Basic)
	return ok && b.Info()&types.IsUntyped != 0
}

// coerce adapts an untyped literal to the target type's representation.
func (e *Env) coerce(v Val, t types.Type) Val {
	if !isUntyped(v.T) {
		return v
	}
	if v.T == types.Typ[types.UntypedNil] {
		return e.x.zeroVal(t)
	}
	if w, _, ok := isIntType(t); ok && e.x.mode == ModeBV {
		n, ok := isLit(v.S)
		if !ok {
			e.fail("non-literal untyped value %s", v.S)
		}
		return Val{T: t, K: KScalar, S: bvLit(n, w)}
	}
	if bt, ok := t.Underlying().(*types.Basic); ok && bt.Info()&types.IsFloat != 0 {
		n, _ := isLit(v.S)
		if n != nil && n.Sign() == 0 {
			pfx, sort := "f64", "F64"
			if bt.Kind() == types.Float32 {
				pfx, sort = "f32", "F32"
			}
			return Val{T: t, K: KScalar, S: e.x.decls.Const(pfx+".zero", sort)}
		}
		e.fail("float literal other than 0 in spec")
	}
	v.T = t
	return v
}

func (e *Env) coerceIdx(v Val) string {
	if isUntyped(v.T) && e.x.mode == ModeBV {
		n, _ := isLit(v.S)
		return bvLit(n, 64)
	}
	if e.x.mode == ModeBV {
		return e.x.toIdx(v)
	}
	return v.S
}

func (e *Env) unify(a, b Val) (Val, Val) {
	if isUntyped(a.T) && !isUntyped(b.T) {
		return e.coerce(a, b.T), b
	}
	if isUntyped(b.T) && !isUntyped(a.T) {
		return a, e.coerce(b, a.T)
	}
	return a, b
}

func (e *Env) bin(n EBin) Val {
	x := e.x
	switch n.Op {
	case "&&":
		return boolVal(and(e.trBool(n.L), e.trBool(n.R)))
	case "||":
		return boolVal(or(e.trBool(n.L), e.trBool(n.R)))
	case "==>":
		return boolVal(implies(e.trBool(n.L), e.trBool(n.R)))
	}
	a, b := e.tr(n.L), e.tr(n.R)
	a, b = e.unify(a, b)
	switch n.Op {
	case "==", "!=":
		at, bt := x.flatten(a), x.flatten(b)
		if len(at) != len(bt) {
			e.fail("comparison of different shapes: %s", n)
		}
		if a.T != nil && b.T != nil {
			// a captured variable is a cell (a pointer): comparing it with a value of the variable's type is a
			// contract error, and an ill-sorted equality must never reach a solver
			_, pa := a.T.Underlying().(*types.Pointer)
			_, pb := b.T.Underlying().(*types.Pointer)
			other := b.T
			if pb {
				other = a.T
			}
			if pa != pb {
				ok := false
				if bt, isB := other.Underlying().(*types.Basic); isB && (bt.Kind() == types.UntypedNil || bt.Kind() == types.UnsafePointer || bt.Kind() == types.Uintptr) {
					ok = true
				}
				if _, isI := other.Underlying().(*types.Interface); isI {
					ok = true
				}
				if !ok {
					e.fail("comparison of %s with %s in %s (a captured variable needs a dereference: *name)", a.T, b.T, n)
				}
			}
			if a.K == KScalar && b.K == KScalar && !isUntyped(a.T) && !isUntyped(b.T) {
				sa, oka := x.sorts.scalarSort(a.T)
				sb, okb := x.sorts.scalarSort(b.T)
				if oka && okb && sa != sb {
					e.fail("comparison of sorts %s and %s in %s", sa, sb, n)
				}
			}
		}
		if a.K == KSlice && (b.Ref == "0" || a.Ref == "0") && (isNilSlice(b) || isNilSlice(a)) {
			r := eq(a.Ref, b.Ref)
			if n.Op == "!=" {
				r = not(r)
			}
			return boolVal(r)
		}
		var cs []string
		if isFloat(a.T) {
			pfx, sort := fltPfx(a.T)
			fe := x.decls.Fun(pfx+".eq", []string{sort, sort}, "Bool")
			cs = append(cs, app(fe, at[0], bt[0]))
		} else {
			for i := range at {
				cs = append(cs, eq(at[i], bt[i]))
			}
		}
		r := and(cs...)
		if n.Op == "!=" {
			r = not(r)
		}
		return boolVal(r)
	case "<", "<=", ">", ">=":
		for _, v := range []Val{a, b} {
			if v.T != nil {
				switch v.T.Underlying().(type) {
				case *types.Pointer, *types.Map, *types.Chan, *types.Slice, *types.Interface, *types.Signature, *types.Struct:
					// a captured variable is a cell: write *name
					e.fail("ordering comparison on a value of type %s (a captured variable needs a dereference: *name)", v.T)
				}
			}
		}
		if isFloat(a.T) {
			pfx, sort := fltPfx(a.T)
			lt := x.decls.Fun(pfx+".lt", []string{sort, sort}, "Bool")
			le := x.decls.Fun(pfx+".le", []string{sort, sort}, "Bool")
			switch n.Op {
			case "<":
				return boolVal(app(lt, a.S, b.S))
			case ">":
				return boolVal(app(lt, b.S, a.S))
			case "<=":
				return boolVal(app(le, a.S, b.S))
			default:
				return boolVal(app(le, b.S, a.S))
			}
		}
		if x.mode == ModeBV && !isUntyped(a.T) {
			_, signed, _ := isIntType(a.T)
			op := map[string][2]string{"<": {"bvslt", "bvult"}, "<=": {"bvsle", "bvule"}, ">": {"bvsgt", "bvugt"}, ">=": {"bvsge", "bvuge"}}[n.Op]
			if signed {
				return boolVal(app(op[0], a.S, b.S))
			}
			return boolVal(app(op[1], a.S, b.S))
		}
		return boolVal(app(n.Op, a.S, b.S))
	case "+", "-", "*", "/", "%":
		if x.mode == ModeBV && !isUntyped(a.T) {
			_, signed, _ := isIntType(a.T)
			var f string
			switch n.Op {
			case "+":
				f = "bvadd"
			case "-":
				f = "bvsub"
			case "*":
				f = "bvmul"
			case "/":
				f = "bvudiv"
				if signed {
					f = "bvsdiv"
				}
			case "%":
				f = "bvurem"
				if signed {
					f = "bvsrem"
				}
			}
			return Val{T: a.T, K: KScalar, S: app(f, a.S, b.S)}
		}
		var r string
		switch n.Op {
		case "+":
			r = app("+", a.S, b.S)
		case "-":
			r = app("-", a.S, b.S)
		case "*":
			r = app("*", a.S, b.S)
		case "/":
			if lit, ok := isLit(b.S); ok && lit.Sign() > 0 {
				// Go truncation toward zero for positive divisor
				r = ite(app(">=", a.S, "0"), app("div", a.S, b.S), app("-", app("div", app("-", a.S), b.S)))
			} else {
				r = goDivInt(a.S, b.S)
			}
		case "%":
			if lit, ok := isLit(b.S); ok && lit.Sign() > 0 {
				r = ite(app(">=", a.S, "0"), app("mod", a.S, b.S), app("-", app("mod", app("-", a.S), b.S)))
			} else {
				r = goRemInt(a.S, b.S)
			}
		}
		t := a.T
		if isUntyped(t) {
			t = b.T
		}
		if e.wrap {
			if w, signed, ok := isIntType(t); ok && !isUntyped(t) {
				r = x.wrapInt(r, w, signed)
			}
		}
		return Val{T: t, K: KScalar, S: r}
	case "&", "|", "^", "<<", ">>":
		if x.mode == ModeBV && !isUntyped(a.T) {
			f := map[string]string{"&": "bvand", "|": "bvor", "^": "bvxor", "<<": "bvshl", ">>": "bvlshr"}[n.Op]
			return Val{T: a.T, K: KScalar, S: app(f, a.S, b.S)}
		}
		e.fail("bit operation %s needs arith bv", n.Op)
	}
	e.fail("operator %s", n.Op)
	return Val{}
}

func isNilSlice(v Val) bool { return v.K == KSlice && v.Ref == "0" }

func isFloat(t types.Type) bool {
	b, ok := t.Underlying().(*types.Basic)
	return ok && b.Info()&types.IsFloat != 0
}

func fltPfx(t types.Type) (string, string) {
	if b, ok := t.Underlying().(*types.Basic); ok && b.Kind() == types.Float32 {
		return "f32", "F32"
	}
	return "f64", "F64"
}

func (e *Env) quant(n EQuant) Val {
	x := e.x
	vars := map[string]Val{}
	var binders, guards []string
	for _, qv := range n.Vars {
		// a type written with a trailing '!' binds the variable without the allocated/typed guard (used to define an
		// uninterpreted predicate on all references, whenever they come into existence)
		unguarded := strings.HasSuffix(qv.Type, "!")
		qv.Type = strings.TrimSuffix(qv.Type, "!")
		t, err := x.C.ResolveType(x.P, e.pkgPath, qv.Type)
		if err != nil {
			e.fail("%v", err)
		}
		sort, ok := x.sorts.scalarSort(t)
		if !ok {
			e.fail("quantified variable %s must have a scalar type, got %s", qv.Name, t)
		}
		*e.nq++
		name := fmt.Sprintf("%s!q%d", mangle(qv.Name), *e.nq)
		binders = append(binders, fmt.Sprintf("(%s %s)", name, sort))
		v := e.scalarOf(t, name)
		vars[qv.Name] = v
		if unguarded {
			continue
		}
		switch u := t.Underlying().(type) {
		case *types.Pointer:
			// typed, allocated, non-nil objects only
			guards = append(guards, app("<", "0", name), app("<=", name, e.st.alloc),
				eq(sel(x.typArr(e.st), name), x.typeId(u.Elem())))
		case *types.Map:
			guards = append(guards, app("<", "0", name), app("<=", name, e.st.alloc),
				eq(sel(x.typArr(e.st), name), x.typeId(t)))
		}
	}
	body := e.with(vars).trBool(n.Body)
	g := and(guards...)
	var inner string
	if n.Forall {
		inner = implies(g, body)
		return boolVal(fmt.Sprintf("(forall (%s) %s)", strings.Join(binders, " "), inner))
	}
	inner = and(g, body)
	return boolVal(fmt.Sprintf("(exists (%s) %s)", strings.Join(binders, " "), inner))
}

func (e *Env) ident(name string) Val {
	x := e.x
	if v, ok := e.vars[name]; ok {
		return v
	}
	gs := e.st
	if e.ghostSt != nil {
		gs = e.ghostSt
	}
	if v, ok := gs.ghost[name]; ok && !e.noGhost {
		return v
	}
	if e.lookup != nil {
		if v, ok := e.lookup(name); ok {
			return v
		}
	}
	if name == "alloc" {
		return Val{T: types.Typ[types.Int], K: KScalar, S: e.st.alloc}
	}
	// package-level objects
	if pkg := x.C.Pkgs[e.pkgPath]; pkg != nil {
		if v, ok := e.pkgObject(pkg, name); ok {
			return v
		}
	}
	e.fail("unknown identifier %q", name)
	return Val{}
}

func (e *Env) pkgObject(pkg *types.Package, name string) (Val, bool) {
	x := e.x
	obj := pkg.Scope().Lookup(name)
	if obj == nil {
		return Val{}, false
	}
	switch o := obj.(type) {
	case *types.Const:
		if o.Val().Kind() == constant.Int {
			v := Val{T: types.Typ[types.UntypedInt], K: KScalar, S: o.Val().ExactString()}
			return v, true
		}
		if o.Val().Kind() == constant.Bool {
			return boolVal(fmt.Sprint(constant.BoolVal(o.Val()))), true
		}
	case *types.Var:
		sp := x.P.SSA[pkg.Path()]
		if sp == nil {
			return Val{}, false
		}
		if g, ok := sp.Members[name].(interface{ Name() string }); ok {
			_ = g
		}
		if gl := sp.Var(name); gl != nil {
			if sv, ok := x.sentinelVal(e.st, gl); ok {
				return sv, true
			}
			return x.loadPure(e.st, x.globalAddr(gl).A), true
		}
	}
	return Val{}, false
}

func (e *Env) selector(n ESel) Val {
	x := e.x
	// qualified identifier pkg.Name
	if id, ok := n.X.(EIdent); ok {
		if _, isVar := e.vars[id.Name]; !isVar {
			if _, isGhost := e.st.ghost[id.Name]; !isGhost {
				if pkg := e.importedPkg(id.Name); pkg != nil {
					if v, ok := e.pkgObject(pkg, n.Name); ok {
						return v
					}
					e.fail("unknown %s.%s", id.Name, n.Name)
				}
			}
		}
	}
	base := e.tr(n.X)
	switch base.K {
	case KSlice:
		switch n.Name {
		case "ref":
			return Val{T: types.Typ[types.Int], K: KScalar, S: base.Ref}
		case "off":
			return Val{T: types.Typ[types.Int], K: KScalar, S: base.Off}
		}
	case KIface:
		switch n.Name {
		case "tag":
			return Val{T: types.Typ[types.Int], K: KScalar, S: base.Tag}
		case "pay":
			// the payload of an interface value is a reference or a box: typed uintptr so that it may be compared with pointers
			return Val{T: types.Typ[types.Uintptr], K: KScalar, S: base.Pay}
		}
	case KStruct, KTuple:
		if st, ok := base.T.Underlying().(*types.Struct); ok {
			for i := 0; i < st.NumFields(); i++ {
				if st.Field(i).Name() == n.Name {
					return base.Fs[i]
				}
			}
			// promoted field through embedded struct
			for i := 0; i < st.NumFields(); i++ {
				if st.Field(i).Embedded() {
					if _, ok := st.Field(i).Type().Underlying().(*types.Struct); ok {
						sub := ESel{X: fixedVal{base.Fs[i]}, Name: n.Name}
						return e.selector(sub)
					}
				}
			}
		}
		if tp, ok := base.T.(*types.Tuple); ok {
			var i int
			if _, err := fmt.Sscanf(n.Name, "%d", &i); err == nil && i < tp.Len() {
				return base.Fs[i]
			}
		}
		e.fail("no field %s in %s", n.Name, base.T)
	}
	// pointer to struct: implicit dereference
	if pt, ok := base.T.Underlying().(*types.Pointer); ok {
		if st, ok := pt.Elem().Underlying().(*types.Struct); ok {
			idx, path := findField(st, n.Name)
			if idx < 0 {
				e.fail("no field %s in %s", n.Name, pt.Elem())
			}
			a := x.addrOf(base)
			for _, i := range path {
				a = x.fieldAddr(a, i)
			}
			return x.loadPure(e.st, a)
		}
	}
	e.fail("selector %s on %s", n.Name, base.T)
	return Val{}
}

// fixedVal lets an already translated value appear as an Expr.
type fixedVal struct{ v Val }

func (f fixedVal) String() string { return "<val>" }

func findField(st *types.Struct, name string) (int, []int) {
	for i := 0; i < st.NumFields(); i++ {
		if st.Field(i).Name() == name {
			return i, []int{i}
		}
	}
	for i := 0; i < st.NumFields(); i++ {
		f := st.Field(i)
		if f.Embedded() {
			if sub, ok := f.Type().Underlying().(*types.Struct); ok {
				if j, p := findField(sub, name); j >= 0 {
					return j, append([]int{i}, p...)
				}
			}
		}
	}
	return -1, nil
}

func (e *Env) importedPkg(name string) *types.Package {
	x := e.x
	pkg := x.C.Pkgs[e.pkgPath]
	if pkg == nil {
		return nil
	}
	pos, ok := x.C.EvalPos[e.pkgPath]
	if !ok {
		return nil
	}
	_, obj := pkg.Scope().Innermost(pos).LookupParent(name, pos)
	if pn, ok := obj.(*types.PkgName); ok {
		return pn.Imported()
	}
	return nil
}

func (e *Env) call(n ECall) Val {
	x := e.x
	switch n.Fn {
	case "old":
		if e.old == nil {
			e.fail("old() not available here")
		}
		return e.inState(e.old).tr(n.Args[0])
	case "len":
		v := e.tr(n.Args[0])
		switch v.T.Underlying().(type) {
		case *types.Slice:
			return Val{T: types.Typ[types.Int], K: KScalar, S: v.Len}
		case *types.Map:
			return Val{T: types.Typ[types.Int], K: KScalar, S: x.mapLen(e.st, v)}
		case *types.Basic:
			return Val{T: types.Typ[types.Int], K: KScalar, S: x.strLen(v.S)}
		case *types.Array:
			return Val{T: types.Typ[types.UntypedInt], K: KScalar, S: fmt.Sprint(v.T.Underlying().(*types.Array).Len())}
		}
		e.fail("len of %s", v.T)
	case "cap":
		v := e.tr(n.Args[0])
		if v.K == KSlice {
			return Val{T: types.Typ[types.Int], K: KScalar, S: v.Cap}
		}
		e.fail("cap of %s", v.T)
	case "has":
		m := e.tr(n.Args[0])
		mt, ok := m.T.Underlying().(*types.Map)
		if !ok {
			e.fail("has() on non-map")
		}
		k := e.coerce(e.tr(n.Args[1]), mt.Key())
		return boolVal(x.mapHas(e.st, m, k.S))
	case "fresh":
		v := e.tr(n.Args[0])
		if e.old == nil {
			e.fail("fresh() needs a pre-state")
		}
		ref := v.S
		if v.K == KSlice {
			ref = v.Ref
		}
		return boolVal(app(">", ref, e.old.alloc))
	case "allocated":
		v := e.tr(n.Args[0])
		ref := v.S
		if v.K == KSlice {
			ref = v.Ref
		}
		return boolVal(and(app("<", "0", ref), app("<=", ref, e.st.alloc)))
	case "asptr":
		// asptr(p, T): the unsafe.Pointer (or pointer) p viewed as *T
		v := e.tr(n.Args[0])
		ts := exprTypeString(n.Args[1])
		t, err := x.C.ResolveType(x.P, e.pkgPath, ts)
		if err != nil {
			e.fail("%v", err)
		}
		if v.K != KScalar {
			e.fail("asptr(): pointer expected")
		}
		return Val{T: types.NewPointer(t), K: KScalar, S: v.S}
	case "memcap":
		return Val{T: types.Typ[types.Int], K: KScalar, S: x.memcap()}
	case "implements":
		v := e.tr(n.Args[0])
		ts := exprTypeString(n.Args[1])
		t, err := x.C.ResolveType(x.P, e.pkgPath, ts)
		if err != nil {
			e.fail("%v", err)
		}
		if v.K != KIface {
			e.fail("implements(): interface value expected")
		}
		if kt, ok := e.st.knownTag[v.Tag]; ok {
			if it, isI := t.Underlying().(*types.Interface); isI {
				return boolVal(fmt.Sprint(types.Implements(kt, it)))
			}
		}
		return boolVal(and(not(eq(v.Tag, "0")), x.implTerm(v.Tag, t)))
	case "istype":
		v := e.tr(n.Args[0])
		ts := exprTypeString(n.Args[1])
		t, err := x.C.ResolveType(x.P, e.pkgPath, ts)
		if err != nil {
			e.fail("%v", err)
		}
		if v.K == KIface {
			if kt, ok := e.st.knownTag[v.Tag]; ok {
				return boolVal(fmt.Sprint(types.Identical(kt, t)))
			}
			return boolVal(eq(v.Tag, x.typeId(t)))
		}
		// dynamic type of a heap object
		return boolVal(eq(sel(x.typArr(e.st), v.S), x.typeId(t)))
	case "string":
		v := e.tr(n.Args[0])
		if v.K != KSlice {
			e.fail("string(): byte slice expected")
		}
		ms := "(Array Int (Array " + x.sorts.Idx() + " " + x.byteSort() + "))"
		arr := x.heapArr(e.st, "mem_uint8", ms)
		x.decls.Fun("gstr.of", []string{"(Array " + x.sorts.Idx() + " " + x.byteSort() + ")", x.sorts.Idx(), x.sorts.Idx()}, "Str")
		x.decls.Fun("gstr.len", []string{"Str"}, x.sorts.Idx())
		return Val{T: types.Typ[types.String], K: KScalar, S: app("gstr.of", sel(arr, v.Ref), v.Off, v.Len)}
	case "isnan":
		v := e.tr(n.Args[0])
		pfx, sort := fltPfx(v.T)
		f := x.decls.Fun(pfx+".isnan", []string{sort}, "Bool")
		return boolVal(app(f, v.S))
	case "isnil":
		v := e.tr(n.Args[0])
		switch v.K {
		case KIface:
			return boolVal(eq(v.Tag, "0"))
		case KSlice:
			return boolVal(eq(v.Ref, "0"))
		}
		return boolVal(eq(v.S, "0"))
	case "feq", "fsub":
		// feq(a, b): the IEEE comparison a == b of the Go code (false whenever a NaN is involved), as opposed to the
		// spec's ==, which is identity of values. fsub(a, b): the float subtraction of the Go code.
		a, b := e.tr(n.Args[0]), e.tr(n.Args[1])
		if !isFloat(a.T) {
			e.fail("%s(): float operands expected", n.Fn)
		}
		b = e.coerce(b, a.T)
		pfx, sort := fltPfx(a.T)
		if n.Fn == "feq" {
			return boolVal(app(x.decls.Fun(pfx+".eq", []string{sort, sort}, "Bool"), a.S, b.S))
		}
		return Val{T: a.T, K: KScalar, S: app(x.decls.Fun(pfx+".sub", []string{sort, sort}, sort), a.S, b.S)}
	case "int":
		v := e.tr(n.Args[0])
		if x.mode == ModeBV {
			e.fail("int() conversion in bv mode")
		}
		return Val{T: types.Typ[types.Int], K: KScalar, S: v.S}
	case "uint64":
		v := e.tr(n.Args[0])
		if x.mode == ModeBV {
			return Val{T: types.Typ[types.Uint64], K: KScalar, S: x.toIdx(v)}
		}
		return Val{T: types.Typ[types.Uint64], K: KScalar, S: v.S}
	}
	if sf, ok := x.C.Specs[n.Fn]; ok {
		if len(sf.Params) != len(n.Args) {
			e.fail("spec %s expects %d arguments", n.Fn, len(sf.Params))
		}
		if sf.Uninterp {
			var argTerms, argSorts []string
			for i, a := range n.Args {
				pt, err := x.C.ResolveType(x.P, sf.PkgPath, sf.Params[i].Type)
				if err != nil {
					e.fail("%v", err)
				}
				v := e.coerce(e.tr(a), pt)
				if sl, ok := pt.Underlying().(*types.Slice); ok && v.K == KSlice {
					if b, ok := sl.Elem().Underlying().(*types.Basic); ok && b.Kind() == types.Uint8 {
						// a byte-slice argument stands for its contents: (backing array contents, offset, length)
						hs := "(Array Int (Array " + x.sorts.Idx() + " " + x.byteSort() + "))"
						arr := x.heapArr(e.st, "mem_uint8", hs)
						argSorts = append(argSorts, "(Array "+x.sorts.Idx()+" "+x.byteSort()+")", x.sorts.Idx(), x.sorts.Idx())
						argTerms = append(argTerms, sel(arr, v.Ref), v.Off, v.Len)
						continue
					}
				}
				for j, l := range x.sorts.leaves(pt) {
					argSorts = append(argSorts, l.sort)
					argTerms = append(argTerms, x.flatten(v)[j])
				}
			}
			rt, err := x.C.ResolveType(x.P, sf.PkgPath, sf.Ret)
			if err != nil {
				e.fail("%v", err)
			}
			rs, ok := x.sorts.scalarSort(rt)
			if !ok {
				e.fail("ufunc %s must return a scalar", n.Fn)
			}
			_, seen := x.decls.set["uf."+sf.Name]
			f := x.decls.Fun("uf."+sf.Name, argSorts, rs)
			if w, signed, ok := isIntType(rt); ok && x.mode == ModeInt && !seen {
				// range axiom for the declared result type
				var bs, as []string
				for i, s := range argSorts {
					bs = append(bs, fmt.Sprintf("(ua%d %s)", i, s))
					as = append(as, fmt.Sprintf("ua%d", i))
				}
				lo, hi := intRange(w, signed)
				call := app(f, as...)
				x.preamble = append(x.preamble, fmt.Sprintf("(assert (forall (%s) (! (and (<= %s %s) (<= %s %s)) :pattern (%s))))", strings.Join(bs, " "), lo, call, call, hi, call))
			}
			return e.scalarOf(rt, app(f, argTerms...))
		}
		vars := map[string]Val{}
		for i, a := range n.Args {
			pt, err := x.C.ResolveType(x.P, sf.PkgPath, sf.Params[i].Type)
			if err != nil {
				e.fail("%v", err)
			}
			v := e.coerce(e.tr(a), pt)
			if v.K != KIface && v.K != KAddr {
				v = retype(v, pt)
			}
			vars[sf.Params[i].Name] = v
		}
		inner := &Env{x: x, st: e.st, old: e.old, vars: vars, pkgPath: sf.PkgPath, wrap: e.wrap, nq: e.nq}
		return inner.tr(sf.Body)
	}
	e.fail("unknown function %s in spec", n.Fn)
	return Val{}
}

func exprTypeString(ex Expr) string {
	switch n := ex.(type) {
	case EIdent:
		return n.Name
	case EDeref:
		return "*" + exprTypeString(n.X)
	case ESel:
		return exprTypeString(n.X) + "." + n.Name
	}
	return ex.String()
}

// trClause translates a clause to a boolean term, reporting errors with position.
func (x *Exec) trClause(env *Env, c Clause) (term string, err error) {
	defer func() {
		if r := recover(); r != nil {
			if se, ok := r.(specErr); ok {
				err = fmt.Errorf("%s: %s (in %q)", c.Pos, se.msg, c.Src)
				return
			}
			panic(r)
		}
	}()
	return env.trBool(c.E), nil
}

var _ = token.NoPos
