#!/usr/bin/env python3
"""unsat-core by deletion for a govc SMT file: prints the assertions needed for unsat"""
import sys,subprocess
f=sys.argv[1]
lines=open(f).read().split('\n')
def check(ls):
    open('/tmp/t_core.smt2','w').write('\n'.join(ls))
    try:
        out=subprocess.run(['z3-new','-T:5','/tmp/t_core.smt2'],capture_output=True,text=True,timeout=8).stdout
    except Exception:
        return 'timeout'
    return out.strip().split('\n')[0]
print('full:',check(lines))
asserts=[i for i,l in enumerate(lines) if l.startswith('(assert')]
keep=set(asserts)
for i in reversed(asserts):
    trial=[l for j,l in enumerate(lines) if j not in asserts or j in keep-{i}]
    if check(trial)=='unsat':
        keep.discard(i)
print(len(keep),'core asserts')
for i in sorted(keep):
    print(i, lines[i][:700]); print()
