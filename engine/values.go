package main

import (
	"fmt"
	"go/types"
	"strings"

	"golang.org/x/tools/go/ssa"
)

type VK int

const (
	KScalar VK = iota
	KSlice
	KIface
	KStruct
	KTuple
	KAddr
	KFunc
)

type Closure struct {
	Fn       *ssa.Function
	Bindings []Val
}

type Val struct {
	T                  types.Type
	K                  VK
	S                  string // scalar / pointer / map / array term; for KFunc: identity term
	Ref, Off, Len, Cap string
	Tag, Pay           string
	DynT               types.Type
	Fs                 []Val
	A                  *Addr
	Clo                *Closure
}

type Addr struct {
	Prefix string   // heap array family name
	Idx    []string // index terms (ref [, elem index])
	Sub    []string // index into array-valued leaf
	T      types.Type
	Global bool
	Off    string // slice element: Idx = [ref, i], element lives at index Off+i (kept apart so that quantifier triggers do not contain arithmetic)
}

type IterState struct {
	Map     Val
	Visited string // (Array K Bool)
	Count   string // Idx
	IsStr   bool
	Start   string // has-array of the map when the range statement started
	Shrunk  bool // a key of this map family may have been deleted during the iteration: no cardinality facts
	Grown   bool // a key may have been added during the iteration: Go does not promise to visit it, no exhaustion fact either
}

type DeferRec struct {
	Call *ssa.CallCommon
	Args []Val
	Fn   Val
	Pos  string
}

type Frame struct {
	fn     *ssa.Function
	regs   map[ssa.Value]Val
	parent *Frame
	// return continuation (nil for outermost)
	retInstr ssa.Instruction
	retBlock *ssa.BasicBlock
	retIdx   int
	defers   []DeferRec
	contract *Contract
	free     []Val // closure bindings
	onReturn func(st *State, self *Frame, results []Val)
	inLoops  map[*ssa.BasicBlock]bool // loop headers currently being explored on this path (cut points)
	oldState *State
}

type State struct {
	lines    []string
	heap     map[string]string
	alloc    string
	ghost    map[string]Val
	written  map[string]bool
	knownTag map[string]types.Type
	iters    map[ssa.Value]*IterState
	pathDesc []string
	infeasible bool
	gen        int
	writtenAll bool
	wvBad      []string
	heapBound  map[string]string // heap array -> allocation counter bounding every reference stored in it ("" = current)
	allKept    map[string]bool   // arrays preserved by every havoc-all so far on this path (nil = no havoc-all yet)
	localRefs  []string          // references of stack-allocated (non-escaping) locals of the frames on this path
	preHavoc   map[string]string // heap array -> version just before the last havoc-all (locals keep their contents)
}

func (st *State) clone() *State {
	n := &State{lines: st.lines[:len(st.lines):len(st.lines)], alloc: st.alloc, infeasible: st.infeasible, gen: st.gen, writtenAll: st.writtenAll, wvBad: st.wvBad[:len(st.wvBad):len(st.wvBad)]}
	n.heap = make(map[string]string, len(st.heap))
	for k, v := range st.heap {
		n.heap[k] = v
	}
	n.ghost = make(map[string]Val, len(st.ghost))
	for k, v := range st.ghost {
		n.ghost[k] = v
	}
	n.written = make(map[string]bool, len(st.written))
	for k, v := range st.written {
		n.written[k] = v
	}
	n.knownTag = make(map[string]types.Type, len(st.knownTag))
	for k, v := range st.knownTag {
		n.knownTag[k] = v
	}
	n.iters = make(map[ssa.Value]*IterState, len(st.iters))
	for k, v := range st.iters {
		c := *v
		n.iters[k] = &c
	}
	n.pathDesc = st.pathDesc[:len(st.pathDesc):len(st.pathDesc)]
	n.heapBound = make(map[string]string, len(st.heapBound))
	for k, v := range st.heapBound {
		n.heapBound[k] = v
	}
	if st.allKept != nil {
		n.allKept = make(map[string]bool, len(st.allKept))
		for k, v := range st.allKept {
			n.allKept[k] = v
		}
	}
	n.localRefs = st.localRefs[:len(st.localRefs):len(st.localRefs)]
	n.preHavoc = make(map[string]string, len(st.preHavoc))
	for k, v := range st.preHavoc {
		n.preHavoc[k] = v
	}
	return n
}

func (fr *Frame) clone() *Frame {
	if fr == nil {
		return nil
	}
	n := *fr
	n.regs = make(map[ssa.Value]Val, len(fr.regs))
	for k, v := range fr.regs {
		n.regs[k] = v
	}
	n.defers = fr.defers[:len(fr.defers):len(fr.defers)]
	n.parent = fr.parent.clone()
	n.inLoops = make(map[*ssa.BasicBlock]bool, len(fr.inLoops))
	for k, v := range fr.inLoops {
		n.inLoops[k] = v
	}
	return &n
}

// ---- Exec: per-function verification context ----

type Ob struct {
	Name   string
	Kind   string
	Label  string
	Func   string
	Pos    string
	Props  []string
	Goal   string
	Query  string
	Light  string
	Path   string
	Status string // filled by solver
	Solver string
	TimeS  float64
	Detail string
	Model  string
}

type Exec struct {
	P      *Program
	C      *Contracts
	fn     *ssa.Function
	con    *Contract
	mode   Mode
	sorts  Sorts
	decls  *Decls
	nfresh int
	obs    []*Ob
	obSeen map[string]int
	typeIds map[string]int
	typeById []types.Type
	strConsts map[string]string
	fltConsts map[string]string
	npaths int
	errs   []string
	warns  map[string]bool
	assumed map[string]bool // assumed contracts used
	inlined map[string]bool
	preamble []string
	sentinels map[*ssa.Global]bool
	old *State
	loopInfo map[*ssa.Function]*LoopInfo
	maxPaths int
	usesFloatOrder bool
	blockedCalls map[string]bool
	curPos string
	tier string
	ngen int
	sentinelNames []string
	arrSorts map[string]string
	dry int
	dryFrameFn *ssa.Function
	dryBody map[*ssa.BasicBlock]bool
	dryAcc map[string]bool
	dryAlloc0 string // allocation counter at the start of the current dry run
	dryAllocs bool   // some dry path ended with a different allocation counter
	dryAll bool
	dryKept map[string]bool
	dryKeptSet bool
	dryGhosts map[string]bool
	dryGhost bool
	loopWrites map[*ssa.BasicBlock]*writeSet
	fnMods map[string]*modGroup
	fnModAll bool
	collectTyping bool
	pendingTyping []Val
	pendingBound []string
	pendingIdx   []string
	pendingLeaf  [][3]string
	refArrs      map[string]bool
	refKeyHas    map[string]bool // map key sets whose keys are references
	curFrame *Frame
	nExitCovers int
	modExcept []string
	curCallee string
	inLoopHavoc bool
}

func isRefLeaf(l leaf) bool {
	if l.role == "ref" || l.role == "pay" {
		return true
	}
	if l.typ == nil {
		return false
	}
	switch u := l.typ.Underlying().(type) {
	case *types.Pointer, *types.Map, *types.Chan:
		return true
	case *types.Basic:
		return u.Kind() == types.UnsafePointer
	case *types.Array:
		switch u.Elem().Underlying().(type) {
		case *types.Pointer, *types.Map, *types.Chan:
			return true
		}
	}
	return false
}

func (x *Exec) markRef(name string, l leaf) {
	if isRefLeaf(l) {
		if x.refArrs == nil {
			x.refArrs = map[string]bool{}
		}
		x.refArrs[name] = true
	}
}

type writeSet struct {
	allocs bool // the loop body may allocate (directly or through a callee)
	names  map[string]bool
	ghosts map[string]bool // ghost variables assigned by hooks inside the loop
	all    bool
	kept  map[string]bool // with all: arrays that every havoc-all in the loop preserves
}

func (x *Exec) noteArr(name, sort string) {
	if x.arrSorts == nil {
		x.arrSorts = map[string]string{}
	}
	x.arrSorts[name] = sort
}

func (x *Exec) fresh(hint string) string {
	x.nfresh++
	return fmt.Sprintf("%s!%d", mangle(hint), x.nfresh)
}

func (x *Exec) warn(format string, a ...interface{}) {
	m := fmt.Sprintf(format, a...)
	if x.warns == nil {
		x.warns = map[string]bool{}
	}
	x.warns[m] = true
}

type unsupported struct{ msg string }

func (x *Exec) unsupported(format string, a ...interface{}) {
	panic(unsupported{fmt.Sprintf(format, a...)})
}

func (x *Exec) freshConst(hint, sort string) string {
	n := x.fresh(hint)
	x.decls.Const(n, sort)
	return n
}

func (st *State) define(x *Exec, hint, sort, term string) string {
	// keep simple terms inline
	if len(term) < 40 && !strings.Contains(term, "store") {
		return term
	}
	n := x.fresh(hint)
	st.lines = append(st.lines, fmt.Sprintf("(define-fun %s () %s %s)", n, sort, term))
	return n
}

func (st *State) assume(t string) {
	if t == "true" {
		return
	}
	if t == "false" {
		st.infeasible = true
	}
	st.lines = append(st.lines, "(assert "+t+")")
}

// implTerm: "the dynamic type with this tag implements interface type it" (uninterpreted per interface; facts come from
// type safety of statically typed interface values and from concrete types whose tag is a known constant)
func (x *Exec) implTerm(tag string, it types.Type) string {
	if isDigits(tag) {
		n := 0
		fmt.Sscan(tag, &n)
		if n >= 1 && n <= len(x.typeById) {
			if iface, ok := it.Underlying().(*types.Interface); ok {
				return fmt.Sprint(types.Implements(x.typeById[n-1], iface))
			}
		}
		if n == 0 {
			return "false"
		}
	}
	name := "impl." + mangle(typeShort(it))
	x.decls.Fun(name, []string{"Int"}, "Bool")
	return app(name, tag)
}

// ---- type ids ----

func (x *Exec) typeId(t types.Type) string {
	if m, ok := t.Underlying().(*types.Map); ok {
		// named map types convert freely to and from their underlying type: the run-time identity of a map is map[K]V
		t = m
	}
	k := types.TypeString(t, nil)
	if id, ok := x.typeIds[k]; ok {
		return intLit(int64(id))
	}
	id := len(x.typeIds) + 1
	x.typeIds[k] = id
	x.typeById = append(x.typeById, t)
	return intLit(int64(id))
}

// ---- zero values / fresh values ----

func (x *Exec) zeroLeaf(l leaf) string {
	s := l.sort
	switch {
	case s == "Int":
		return "0"
	case s == "Bool":
		return "false"
	case strings.HasPrefix(s, "(_ BitVec "):
		var w int
		fmt.Sscanf(s, "(_ BitVec %d)", &w)
		return fmt.Sprintf("(_ bv0 %d)", w)
	case s == "F32":
		return x.decls.Const("f32.zero", "F32")
	case s == "F64":
		return x.decls.Const("f64.zero", "F64")
	case s == "Str":
		x.decls.Const("gstr.empty", "Str")
		return "gstr.empty"
	case strings.HasPrefix(s, "(Array "):
		// const array of zero element
		es := arrayElemSort(s)
		if es == "F32" || es == "F64" || es == "Str" {
			// cvc5 wants a value inside (as const ...): use a named array constant with a defining axiom instead
			name := "zeroarr." + mangle(s)
			if _, ok := x.decls.set[name]; !ok {
				x.decls.Const(name, s)
				x.ensurePre(fmt.Sprintf("(forall ((i %s)) (! (= (select %s i) %s) :pattern ((select %s i))))", arrayIdxSort(s), name, x.zeroLeaf(leaf{sort: es}), name))
			}
			return name
		}
		return fmt.Sprintf("((as const %s) %s)", s, x.zeroLeaf(leaf{sort: es}))
	}
	panic("zeroLeaf: " + s)
}

func arrayElemSort(s string) string {
	// s = (Array I E): find E by paren matching
	inner := s[len("(Array ") : len(s)-1]
	// skip index sort
	i := skipSexp(inner, 0)
	return strings.TrimSpace(inner[i:])
}

func arrayIdxSort(s string) string {
	inner := s[len("(Array ") : len(s)-1]
	i := skipSexp(inner, 0)
	return strings.TrimSpace(inner[:i])
}

func skipSexp(s string, i int) int {
	for i < len(s) && s[i] == ' ' {
		i++
	}
	if i < len(s) && s[i] == '(' {
		d := 0
		for ; i < len(s); i++ {
			if s[i] == '(' {
				d++
			} else if s[i] == ')' {
				d--
				if d == 0 {
					return i + 1
				}
			}
		}
		return i
	}
	for i < len(s) && s[i] != ' ' {
		i++
	}
	return i
}

// unflatten builds a Val of type t from leaf terms.
func (x *Exec) unflatten(t types.Type, terms []string) Val {
	v, rest := x.unflat(t, terms)
	if len(rest) != 0 {
		panic("unflatten: leftover terms")
	}
	return v
}

func (x *Exec) unflat(t types.Type, terms []string) (Val, []string) {
	if _, ok := x.sorts.scalarSort(t); ok {
		k := KScalar
		if _, isSig := t.Underlying().(*types.Signature); isSig {
			k = KFunc
		}
		return Val{T: t, K: k, S: terms[0]}, terms[1:]
	}
	switch u := t.Underlying().(type) {
	case *types.Slice:
		return Val{T: t, K: KSlice, Ref: terms[0], Off: terms[1], Len: terms[2], Cap: terms[3]}, terms[4:]
	case *types.Interface:
		return Val{T: t, K: KIface, Tag: terms[0], Pay: terms[1]}, terms[2:]
	case *types.Struct:
		v := Val{T: t, K: KStruct}
		for i := 0; i < u.NumFields(); i++ {
			var f Val
			f, terms = x.unflat(u.Field(i).Type(), terms)
			v.Fs = append(v.Fs, f)
		}
		return v, terms
	case *types.Tuple:
		v := Val{T: t, K: KTuple}
		for i := 0; i < u.Len(); i++ {
			var f Val
			f, terms = x.unflat(u.At(i).Type(), terms)
			v.Fs = append(v.Fs, f)
		}
		return v, terms
	}
	panic(fmt.Sprintf("unflat: %s", t))
}

func (x *Exec) flatten(v Val) []string {
	switch v.K {
	case KScalar, KFunc:
		return []string{v.S}
	case KSlice:
		return []string{v.Ref, v.Off, v.Len, v.Cap}
	case KIface:
		return []string{v.Tag, v.Pay}
	case KStruct, KTuple:
		var out []string
		for _, f := range v.Fs {
			out = append(out, x.flatten(f)...)
		}
		return out
	case KAddr:
		x.unsupported("interior pointer (%s) escapes into memory or a call", v.A.Prefix)
	}
	panic("flatten")
}

func (x *Exec) zeroVal(t types.Type) Val {
	ls := x.sorts.leaves(t)
	terms := make([]string, len(ls))
	for i, l := range ls {
		terms[i] = x.zeroLeaf(l)
	}
	return x.unflatten(t, terms)
}

// freshVal creates an unconstrained value of type t with typing assumptions recorded in st.
func (x *Exec) freshVal(st *State, t types.Type, hint string) Val {
	ls := x.sorts.leaves(t)
	terms := make([]string, len(ls))
	for i, l := range ls {
		terms[i] = x.freshConst(hint+l.suffix, l.sort)
	}
	v := x.unflatten(t, terms)
	x.assumeTyping(st, v)
	return v
}

// assumeTyping adds range/shape facts that hold for every well-typed Go value.
func (x *Exec) assumeTyping(st *State, v Val) {
	switch v.K {
	case KScalar:
		if v.T == nil {
			return
		}
		if w, signed, ok := isIntType(v.T); ok && x.mode == ModeInt {
			lo, hi := intRange(w, signed)
			st.assume(and(app("<=", lo, v.S), app("<=", v.S, hi)))
			return
		}
		switch u := v.T.Underlying().(type) {
		case *types.Pointer, *types.Map, *types.Chan:
			st.assume(and(app("<=", "0", v.S), app("<=", v.S, st.alloc)))
			if _, ok := u.(*types.Map); ok {
				// type safety: a non-nil map value was made as a map[K]V
				st.assume(implies(not(eq(v.S, "0")), eq(sel(x.typArr(st), v.S), x.typeId(u))))
			}
			if pt, ok := u.(*types.Pointer); ok {
				if _, isStruct := pt.Elem().Underlying().(*types.Struct); isStruct {
					if _, named := pt.Elem().(*types.Named); named {
						// type safety: a non-nil *T points to an object allocated as a T
						st.assume(implies(not(eq(v.S, "0")), eq(sel(x.typArr(st), v.S), x.typeId(pt.Elem()))))
					}
				}
			}
		case *types.Basic:
			if u.Kind() == types.UnsafePointer {
				st.assume(and(app("<=", "0", v.S), app("<=", v.S, st.alloc)))
			}
			if u.Kind() == types.String {
				st.assume(x.idxGe0(x.strLen(v.S)))
			}
		case *types.Array:
			_ = u
			if n, ok := packedArray(v.T); ok && x.mode == ModeInt {
				st.assume(and(app("<=", "0", v.S), app("<", v.S, pow2(8*n).String())))
			}
		}
	case KFunc:
		st.assume(app("<=", "0", v.S))
	case KSlice:
		st.assume(and(app("<=", "0", v.Ref), app("<=", v.Ref, st.alloc)))
		st.assume(and(x.idxGe0(v.Off), x.idxGe0(v.Len), x.idxLe(v.Len, v.Cap)))
		st.assume(implies(eq(v.Ref, "0"), and(eq(v.Len, x.idxLit(0)), eq(v.Cap, x.idxLit(0)))))
		if x.mode == ModeInt {
			st.assume(app("<=", app("+", v.Off, v.Cap), "281474976710656"))
			if x.con != nil && len(x.con.AllocProps) > 0 {
				st.assume(app("<=", v.Cap, x.memcap()))
			}
		}
	case KIface:
		st.assume(and(app("<=", "0", v.Tag), app("<=", "0", v.Pay), app("<=", v.Pay, st.alloc)))
		st.assume(implies(eq(v.Tag, "0"), eq(v.Pay, "0")))
		if v.T != nil {
			if it, ok := v.T.Underlying().(*types.Interface); ok && it.NumMethods() > 0 {
				// type safety: a non-nil value of static interface type I has a dynamic type that implements I
				st.assume(implies(not(eq(v.Tag, "0")), x.implTerm(v.Tag, v.T)))
			}
		}
	case KStruct, KTuple:
		for _, f := range v.Fs {
			x.assumeTyping(st, f)
		}
	}
}

func intRange(w int, signed bool) (string, string) {
	if signed {
		lo := pow2(w - 1)
		hi := pow2(w - 1)
		hi.Sub(hi, bigOne)
		return "(- " + lo.String() + ")", hi.String()
	}
	hi := pow2(w)
	hi.Sub(hi, bigOne)
	return "0", hi.String()
}

// ---- index-sort helpers (Int in int mode, BV64 in bv mode) ----

func (x *Exec) idxLit(n int64) string {
	if x.mode == ModeBV {
		return fmt.Sprintf("(_ bv%d 64)", uint64(n))
	}
	return intLit(n)
}
func (x *Exec) idxGe0(t string) string {
	if x.mode == ModeBV {
		return app("bvsge", t, "(_ bv0 64)")
	}
	return app("<=", "0", t)
}
func (x *Exec) idxLe(a, b string) string {
	if x.mode == ModeBV {
		return app("bvsle", a, b)
	}
	return app("<=", a, b)
}
func (x *Exec) idxLt(a, b string) string {
	if x.mode == ModeBV {
		return app("bvslt", a, b)
	}
	return app("<", a, b)
}
func (x *Exec) idxAdd(a, b string) string {
	if x.mode == ModeBV {
		return app("bvadd", a, b)
	}
	if a == "0" {
		return b
	}
	if b == "0" {
		return a
	}
	return app("+", a, b)
}
func (x *Exec) idxSub(a, b string) string {
	if x.mode == ModeBV {
		return app("bvsub", a, b)
	}
	if b == "0" {
		return a
	}
	return app("-", a, b)
}

func (x *Exec) strLen(s string) string {
	x.decls.Fun("gstr.len", []string{"Str"}, x.sorts.Idx())
	return app("gstr.len", s)
}

// ---- heap access ----

func wrapSort(s string, idxSorts []string) string {
	for i := len(idxSorts) - 1; i >= 0; i-- {
		s = "(Array " + idxSorts[i] + " " + s + ")"
	}
	return s
}

func (x *Exec) addrIdxSorts(a *Addr) []string {
	out := make([]string, len(a.Idx))
	for i := range a.Idx {
		if i == 0 {
			out[i] = "Int"
		} else {
			out[i] = x.sorts.Idx()
		}
	}
	return out
}

// heapArr returns the current version of heap array `name`, declaring the base version if needed.
func (x *Exec) heapArr(st *State, name, sort string) string {
	if v, ok := st.heap[name]; ok {
		return v
	}
	base := fmt.Sprintf("%s!g%d", name, st.gen)
	x.decls.Const(base, sort)
	st.heap[name] = base
	x.noteArr(name, sort)
	if st.gen == 0 && x.refArrs[name] && x.mode == ModeInt {
		// entry heap: objects that exist at entry only hold references to objects that exist at entry
		switch {
		case sort == "(Array Int Int)":
			x.ensurePre(fmt.Sprintf("(forall ((r Int)) (! (=> (<= r alloc!0) (<= (select %s r) alloc!0)) :pattern ((select %s r))))", base, base))
		case sort == "(Array Int (Array Int Int))":
			x.ensurePre(fmt.Sprintf("(forall ((r Int) (i Int)) (! (=> (<= r alloc!0) (<= (select (select %s r) i) alloc!0)) :pattern ((select (select %s r) i))))", base, base))
		}
	}
	if ax := x.nilMapAxiom(name, sort, base); ax != "" {
		if st.gen == 0 {
			x.ensurePre(ax)
		} else {
			st.assume(ax)
		}
	}
	if ax := x.keyBoundAxiom(name, base, map[bool]string{true: "alloc!0", false: st.alloc}[st.gen == 0]); ax != "" {
		if st.gen == 0 {
			x.ensurePre(ax)
		} else {
			st.assume(ax)
		}
	}
	// a callee that "modifies *" cannot reach the caller's stack-allocated locals
	if old, ok := st.preHavoc[name]; ok && strings.HasPrefix(sort, "(Array Int ") {
		for _, r := range st.localRefs {
			st.assume(eq(sel(base, r), sel(old, r)))
		}
		delete(st.preHavoc, name)
	}
	return base
}

func (x *Exec) checkWritesVia(st *State, name string) {
	if x.dry > 0 || x.con == nil {
		return
	}
	for _, wv := range x.con.WritesVia {
		if !strings.HasPrefix(name, wv.Prefix) {
			continue
		}
		ok := false
		for f := x.curFrame; f != nil && !ok; f = f.parent {
			fname := FuncName(f.fn)
			for _, a := range wv.Funcs {
				if hookMatches(a, fname) {
					ok = true
				}
			}
		}
		for _, a := range wv.Funcs {
			if x.curCallee != "" && hookMatches(a, x.curCallee) {
				ok = true
			}
		}
		if !ok {
			st.wvBad = append(st.wvBad, fmt.Sprintf("%s written at %s outside %v", name, x.curPos, wv.Funcs))
		}
	}
}

// refBound: every reference stored in the current version of heap array `name` is <= this allocation counter.
func (x *Exec) refBound(st *State, name string) string {
	if b, ok := st.heapBound[name]; ok {
		if b == "" {
			return st.alloc
		}
		return b
	}
	if st.gen == 0 {
		return "alloc!0"
	}
	return st.alloc
}

func (x *Exec) heapSet(st *State, name, sort, term string) {
	x.checkWritesVia(st, name)
	if st.heapBound == nil {
		st.heapBound = map[string]string{}
	}
	st.heapBound[name] = st.alloc
	n := x.fresh(name)
	st.lines = append(st.lines, fmt.Sprintf("(define-fun %s () %s %s)", n, sort, term))
	st.heap[name] = n
	st.written[name] = true
}

// heapHavoc replaces array `name` by a fresh unconstrained version and returns (old,new).
func (x *Exec) heapHavoc(st *State, name, sort string) (string, string) {
	if !x.inLoopHavoc {
		x.checkWritesVia(st, name)
	}
	old := x.heapArr(st, name, sort)
	n := x.freshConst(name, sort)
	st.heap[name] = n
	st.written[name] = true
	if st.heapBound == nil {
		st.heapBound = map[string]string{}
	}
	st.heapBound[name] = ""
	if ax := x.nilMapAxiom(name, sort, n); ax != "" {
		st.assume(ax)
	}
	if ax := x.keyBoundAxiom(name, n, st.alloc); ax != "" {
		st.assume(ax)
	}
	return old, n
}

// keyBoundAxiom: a map whose keys are references holds only keys that exist (no reference into the future): in the version
// `sym` of the key-set array, every key is <= the allocation counter `alloc` at the time the version came into being.
func (x *Exec) keyBoundAxiom(name, sym, alloc string) string {
	if !x.refKeyHas[name] || x.mode != ModeInt {
		return ""
	}
	return fmt.Sprintf("(forall ((m Int) (k Int)) (! (=> (select (select %s m) k) (<= k %s)) :pattern ((select (select %s m) k))))", sym, alloc, sym)
}

// nilMapAxiom: the nil map (id 0) has no keys and length 0, in every version of a map family's arrays.
func (x *Exec) nilMapAxiom(name, sort, sym string) string {
	if !strings.HasPrefix(name, "map_") || strings.Contains(name, ".val") {
		return ""
	}
	if strings.HasSuffix(name, ".has") {
		inner := arrayElemSort(sort)
		return eq(sel(sym, "0"), fmt.Sprintf("((as const %s) false)", inner))
	}
	if strings.HasSuffix(name, ".len") {
		return eq(sel(sym, "0"), x.idxLit(0))
	}
	return ""
}

func nestedSelect(arr string, idx []string) string {
	t := arr
	for _, i := range idx {
		t = sel(t, i)
	}
	return t
}

func nestedStore(arr string, idx []string, v string) string {
	if len(idx) == 0 {
		return v
	}
	return sto(arr, idx[0], nestedStore(sel(arr, idx[0]), idx[1:], v))
}

// packed byte arrays living in element memory (pointer to [N]byte): convert between the scalar and N memory cells
func (x *Exec) packedObj(a *Addr) (int, bool) {
	n, ok := packedArray(a.T)
	if !ok || !strings.HasPrefix(a.Prefix, "mem_") || len(a.Idx) != 1 || len(a.Sub) != 0 {
		return 0, false
	}
	return n, true
}

func (x *Exec) byteAt(v string, i, n int) string {
	if x.mode == ModeBV {
		return fmt.Sprintf("((_ extract %d %d) %s)", 8*i+7, 8*i, v)
	}
	if i == 0 {
		return app("mod", v, "256")
	}
	return app("mod", app("div", v, pow2(8*i).String()), "256")
}

func (x *Exec) packBytes(cell string, n int) string {
	// little-endian packing: byte i has weight 256^i
	if x.mode == ModeBV {
		t := sel(cell, x.idxLit(int64(n-1)))
		for i := n - 2; i >= 0; i-- {
			t = app("concat", t, sel(cell, x.idxLit(int64(i))))
		}
		return t
	}
	var parts []string
	for i := 0; i < n; i++ {
		b := sel(cell, intLit(int64(i)))
		if i == 0 {
			parts = append(parts, b)
		} else {
			parts = append(parts, app("*", b, pow2(8*i).String()))
		}
	}
	return app("+", parts...)
}

func (x *Exec) unpackBytes(cell string, v string, n int) string {
	t := cell
	for i := 0; i < n; i++ {
		t = sto(t, x.idxLit(int64(i)), x.byteAt(v, i, n))
	}
	return t
}

// readAt builds the read term for leaf array arr at address a.
func (x *Exec) readAt(arr string, a *Addr, l leaf) string {
	if a.Off != "" && len(a.Sub) == 0 && x.mode == ModeInt {
		return app(x.slcFun(l.sort), sel(arr, a.Idx[0]), a.Off, a.Idx[1])
	}
	idx := append(append([]string{}, a.Idx...), a.Sub...)
	if a.Off != "" {
		idx[1] = x.idxAdd(a.Off, idx[1])
	}
	return nestedSelect(arr, idx)
}

// slcFun declares slc.<sort>(array, off, i) = array[off+i] with an explicit trigger.
func (x *Exec) slcFun(elemSort string) string {
	name := "slc." + mangle(elemSort)
	if _, ok := x.decls.set[name]; !ok {
		x.decls.Fun(name, []string{"(Array Int " + elemSort + ")", "Int", "Int"}, elemSort)
		x.preamble = append(x.preamble, fmt.Sprintf("(assert (forall ((a (Array Int %s)) (o Int) (i Int)) (! (= (%s a o i) (select a (+ o i))) :pattern ((%s a o i)))))", elemSort, name, name))
	}
	return name
}

// updFun declares upd.<sort>(array, off, i, v) = store(array, off+i, v), with the read-over-write lemma stated at slc level
// so that quantifiers triggered on slc terms keep firing across element stores.
func (x *Exec) updFun(elemSort string) string {
	name := "upd." + mangle(elemSort)
	if _, ok := x.decls.set[name]; !ok {
		slc := x.slcFun(elemSort)
		as := "(Array Int " + elemSort + ")"
		x.decls.Fun(name, []string{as, "Int", "Int", elemSort}, as)
		x.preamble = append(x.preamble,
			fmt.Sprintf("(assert (forall ((a %s) (o Int) (i Int) (v %s)) (! (= (%s a o i v) (store a (+ o i) v)) :pattern ((%s a o i v)))))", as, elemSort, name, name),
			fmt.Sprintf("(assert (forall ((a %s) (o Int) (i Int) (v %s) (o2 Int) (k Int)) (! (= (%s (%s a o i v) o2 k) (ite (= (+ o2 k) (+ o i)) v (%s a o2 k))) :pattern ((%s (%s a o i v) o2 k)))))", as, elemSort, slc, name, slc, slc, name))
	}
	return name
}

func (x *Exec) load(st *State, a *Addr) Val {
	if n, ok := x.packedObj(a); ok {
		bs := x.byteSort()
		hs := "(Array Int (Array " + x.sorts.Idx() + " " + bs + "))"
		arr := x.heapArr(st, a.Prefix, hs)
		cell := sel(arr, a.Idx[0])
		if x.mode == ModeInt {
			for i := 0; i < n; i++ {
				e := sel(cell, intLit(int64(i)))
				st.assume(and(app("<=", "0", e), app("<=", e, "255")))
			}
		}
		v := Val{T: a.T, K: KScalar, S: st.define(x, "packed", leafSortOf(x, a.T), x.packBytes(cell, n))}
		x.assumeTyping(st, v)
		return v
	}
	ls := x.sorts.leaves(a.T)
	terms := make([]string, len(ls))
	if x.con != nil && x.con.Functional != "" && x.dry == 0 && len(ls) > 0 {
		// a function declared `functional` may only read memory it allocated itself
		if a.Global {
			x.oblige(st, "functional", "reads-only-arguments", x.curPos, "false", nil)
		} else if len(a.Idx) > 0 {
			x.oblige(st, "functional", "reads-only-arguments", x.curPos, app(">", a.Idx[0], "alloc!0"), nil)
		}
	}
	for i, l := range ls {
		name := a.Prefix + l.suffix
		hs := x.leafHeapSort(a, l)
		x.markRef(name, l)
		arr := x.heapArr(st, name, hs)
		terms[i] = x.readAt(arr, a, l)
	}
	v := x.unflatten(a.T, terms)
	// name loaded values to keep terms small, and add typing facts
	v = x.nameVal(st, v, "ld")
	x.assumeTyping(st, v)
	idx := ""
	if len(a.Idx) > 0 {
		idx = a.Idx[0]
	}
	if idx != "" {
		named := x.flatten(v)
		for i, l := range ls {
			if !isRefLeaf(l) || strings.HasPrefix(l.sort, "(Array") {
				continue
			}
			b := x.refBound(st, a.Prefix+l.suffix)
			if b != st.alloc {
				st.assume(implies(app("<=", idx, b), app("<=", named[i], b)))
			}
		}
	}
	return v
}

func ls0suffix(ls []leaf) string {
	if len(ls) == 0 {
		return ""
	}
	return ls[0].suffix
}

// assumeTypingBound: besides the plain typing facts, references read from an object that existed when the array version
// was created (index <= bound) are themselves <= bound. (Objects allocated later - e.g. by a callee whose writes to fresh
// objects need not be declared - may hold newer references.)
func (x *Exec) assumeTypingBound(st *State, v Val, bound string, idx string) {
	x.assumeTyping(st, v)
	if bound == st.alloc || idx == "" {
		return
	}
	for _, t := range x.refTerms(v) {
		st.assume(implies(app("<=", idx, bound), app("<=", t, bound)))
	}
}

// refTerms lists the reference-valued component terms of a value.
func (x *Exec) refTerms(v Val) []string {
	switch v.K {
	case KScalar:
		if v.T == nil {
			return nil
		}
		switch u := v.T.Underlying().(type) {
		case *types.Pointer, *types.Map, *types.Chan:
			return []string{v.S}
		case *types.Basic:
			if u.Kind() == types.UnsafePointer {
				return []string{v.S}
			}
		}
	case KSlice:
		return []string{v.Ref}
	case KIface:
		return []string{v.Pay}
	case KStruct, KTuple:
		var out []string
		for _, f := range v.Fs {
			out = append(out, x.refTerms(f)...)
		}
		return out
	}
	return nil
}

func (x *Exec) leafHeapSort(a *Addr, l leaf) string {
	// heap sort = idx sorts over the *stored* leaf sort. When Sub is used the stored leaf is the array containing l.
	if len(a.Sub) > 0 {
		inner := "(Array " + x.sorts.Idx() + " " + l.sort + ")"
		return wrapSort(inner, x.addrIdxSorts(a))
	}
	return wrapSort(l.sort, x.addrIdxSorts(a))
}

func (x *Exec) nameVal(st *State, v Val, hint string) Val {
	ts := x.flatten(v)
	ls := x.sorts.leaves(v.T)
	changed := false
	for i := range ts {
		if len(ts[i]) > 60 {
			ts[i] = st.define(x, hint+ls[i].suffix, ls[i].sort, ts[i])
			changed = true
		}
	}
	if !changed {
		return v
	}
	nv := x.unflatten(v.T, ts)
	copyMeta(&nv, v)
	return nv
}

func copyMeta(dst *Val, src Val) {
	dst.DynT = src.DynT
	dst.Clo = src.Clo
	if dst.K == KStruct || dst.K == KTuple {
		for i := range dst.Fs {
			if i < len(src.Fs) {
				copyMeta(&dst.Fs[i], src.Fs[i])
			}
		}
	}
}

func (x *Exec) store(st *State, a *Addr, v Val) {
	if n, ok := x.packedObj(a); ok {
		bs := x.byteSort()
		hs := "(Array Int (Array " + x.sorts.Idx() + " " + bs + "))"
		arr := x.heapArr(st, a.Prefix, hs)
		x.heapSet(st, a.Prefix, hs, sto(arr, a.Idx[0], x.unpackBytes(sel(arr, a.Idx[0]), v.S, n)))
		return
	}
	ls := x.sorts.leaves(a.T)
	terms := x.flatten(v)
	if len(terms) != len(ls) {
		panic(fmt.Sprintf("store: leaf mismatch for %s: %d vs %d", a.T, len(terms), len(ls)))
	}
	idx := append(append([]string{}, a.Idx...), a.Sub...)
	if a.Off != "" {
		idx[1] = x.idxAdd(a.Off, idx[1])
	}
	for i, l := range ls {
		name := a.Prefix + l.suffix
		hs := x.leafHeapSort(a, l)
		arr := x.heapArr(st, name, hs)
		if a.Off != "" && len(a.Sub) == 0 && x.mode == ModeInt {
			inner := x.updFun(l.sort)
			x.heapSet(st, name, hs, sto(arr, a.Idx[0], app(inner, sel(arr, a.Idx[0]), a.Off, a.Idx[1], terms[i])))
		} else if len(idx) == 0 {
			x.heapSet(st, name, hs, terms[i])
		} else {
			x.heapSet(st, name, hs, nestedStore(arr, idx, terms[i]))
		}
	}
}

// addrOf computes the address denoted by pointer value p (static pointee type from p.T).
func (x *Exec) addrOf(p Val) *Addr {
	if p.K == KAddr {
		return p.A
	}
	pt, ok := p.T.Underlying().(*types.Pointer)
	if !ok {
		panic(fmt.Sprintf("addrOf: not a pointer: %s", p.T))
	}
	el := pt.Elem()
	switch u := el.Underlying().(type) {
	case *types.Struct:
		return &Addr{Prefix: "fld_" + typeKey(el), Idx: []string{p.S}, T: el}
	case *types.Array:
		return &Addr{Prefix: "mem_" + typeKey(u.Elem()), Idx: []string{p.S}, T: el}
	}
	return &Addr{Prefix: "cell_" + typeKey(el), Idx: []string{p.S}, T: el}
}

func (x *Exec) fieldAddr(base *Addr, i int) *Addr {
	stt := base.T.Underlying().(*types.Struct)
	f := stt.Field(i)
	return &Addr{Prefix: base.Prefix + "." + f.Name(), Idx: base.Idx, Sub: base.Sub, T: f.Type(), Global: base.Global, Off: base.Off}
}

func (x *Exec) elemAddr(base *Addr, i string) *Addr {
	at := base.T.Underlying().(*types.Array)
	if strings.HasPrefix(base.Prefix, "mem_") && len(base.Idx) == 1 {
		return &Addr{Prefix: base.Prefix, Idx: []string{base.Idx[0], i}, T: at.Elem()}
	}
	// array stored inside a field/cell: index into the array-valued leaf
	if len(base.Sub) > 0 {
		x.unsupported("nested fixed arrays")
	}
	return &Addr{Prefix: base.Prefix, Idx: base.Idx, Sub: []string{i}, T: at.Elem(), Global: base.Global}
}

func (x *Exec) sliceElemAddr(s Val, i string) *Addr {
	et := s.T.Underlying().(*types.Slice).Elem()
	return &Addr{Prefix: "mem_" + typeKey(et), Idx: []string{s.Ref, i}, Off: s.Off, T: et}
}

// ---- allocation ----

func (x *Exec) allocRef(st *State, hint string) string {
	r := x.fresh(hint)
	st.lines = append(st.lines, fmt.Sprintf("(define-fun %s () Int (+ %s 1))", r, st.alloc))
	st.alloc = r
	return r
}

func (x *Exec) typArr(st *State) string {
	return x.heapArr(st, "typ", "(Array Int Int)")
}

func (x *Exec) setTyp(st *State, ref string, t types.Type) {
	arr := x.typArr(st)
	x.heapSet(st, "typ", "(Array Int Int)", sto(arr, ref, x.typeId(t)))
}

// ---- maps ----

type mapArrs struct {
	key     string // key sort
	has     string
	hasSort string
	length  string
	vals    []string
	valSort []string
	vleaves []leaf
	prefix  string
}

func (x *Exec) mapInfo(t types.Type) (prefix string, ksort string, vleaves []leaf) {
	mt := t.Underlying().(*types.Map)
	ks, ok := x.sorts.scalarSort(mt.Key())
	if !ok {
		x.unsupported("map key type %s", mt.Key())
	}
	prefix = "map_" + typeKey(mt.Key()) + "_" + typeKey(mt.Elem())
	switch mt.Key().Underlying().(type) {
	case *types.Pointer, *types.Map, *types.Chan:
		if x.refKeyHas == nil {
			x.refKeyHas = map[string]bool{}
		}
		x.refKeyHas[prefix+".has"] = true
	}
	if stt, ok := mt.Elem().Underlying().(*types.Struct); ok && stt.NumFields() == 0 {
		return prefix, ks, nil
	}
	return prefix, ks, x.sorts.leaves(mt.Elem())
}

func (x *Exec) mapHasArr(st *State, t types.Type) (name, sort, cur string) {
	prefix, ks, _ := x.mapInfo(t)
	name = prefix + ".has"
	sort = "(Array Int (Array " + ks + " Bool))"
	return name, sort, x.heapArr(st, name, sort)
}

func (x *Exec) mapLenArr(st *State, t types.Type) (name, sort, cur string) {
	prefix, _, _ := x.mapInfo(t)
	name = prefix + ".len"
	sort = "(Array Int " + x.sorts.Idx() + ")"
	return name, sort, x.heapArr(st, name, sort)
}

func (x *Exec) mapValArr(st *State, t types.Type, l leaf) (name, sort, cur string) {
	prefix, ks, _ := x.mapInfo(t)
	name = prefix + ".val" + l.suffix
	sort = "(Array Int (Array " + ks + " " + l.sort + "))"
	x.markRef(name, l)
	return name, sort, x.heapArr(st, name, sort)
}

func (x *Exec) mapHas(st *State, m Val, k string) string {
	_, _, has := x.mapHasArr(st, m.T)
	return sel(sel(has, m.S), k)
}

func (x *Exec) mapLen(st *State, m Val) string {
	_, _, l := x.mapLenArr(st, m.T)
	return sel(l, m.S)
}

func (x *Exec) mapGet(st *State, m Val, k string) Val {
	_, _, vls := x.mapInfo(m.T)
	et := m.T.Underlying().(*types.Map).Elem()
	if vls == nil {
		return Val{T: et, K: KStruct}
	}
	terms := make([]string, len(vls))
	for i, l := range vls {
		_, _, va := x.mapValArr(st, m.T, l)
		terms[i] = sel(sel(va, m.S), k)
	}
	return x.unflatten(et, terms)
}

func (x *Exec) mapLookup(st *State, m Val, k string) (Val, string) {
	has := x.mapHas(st, m, k)
	raw := x.mapGet(st, m, k)
	zero := x.zeroVal(raw.T)
	rt := x.flatten(raw)
	zt := x.flatten(zero)
	out := make([]string, len(rt))
	for i := range rt {
		out[i] = ite(has, rt[i], zt[i])
	}
	v := x.unflatten(raw.T, out)
	v = x.nameVal(st, v, "lk")
	prefix, _, vls := x.mapInfo(m.T)
	if len(vls) > 0 {
		x.assumeTypingBound(st, v, x.refBound(st, prefix+".val"+vls[0].suffix), m.S)
	} else {
		x.assumeTyping(st, v)
	}
	return v, has
}

func (x *Exec) markIters(st *State, t types.Type, grown bool) {
	p, _, _ := x.mapInfo(t)
	for _, it := range st.iters {
		q, _, _ := x.mapInfo(it.Map.T)
		if p == q {
			it.Shrunk = true
			if grown {
				it.Grown = true
			}
		}
	}
}

func (x *Exec) mapUpdate(st *State, m Val, k string, v Val) {
	x.markIters(st, m.T, true)
	hn, hs, has := x.mapHasArr(st, m.T)
	ln, ls, lens := x.mapLenArr(st, m.T)
	had := sel(sel(has, m.S), k)
	newLen := ite(had, sel(lens, m.S), x.idxAdd(sel(lens, m.S), x.idxLit(1)))
	x.heapSet(st, ln, ls, sto(lens, m.S, newLen))
	x.heapSet(st, hn, hs, sto(has, m.S, sto(sel(has, m.S), k, "true")))
	_, _, vls := x.mapInfo(m.T)
	if vls != nil {
		terms := x.flatten(v)
		for i, l := range vls {
			vn, vs, va := x.mapValArr(st, m.T, l)
			x.heapSet(st, vn, vs, sto(va, m.S, sto(sel(va, m.S), k, terms[i])))
		}
	}
}

func (x *Exec) mapDelete(st *State, m Val, k string) {
	x.markIters(st, m.T, false)
	hn, hs, has := x.mapHasArr(st, m.T)
	ln, ls, lens := x.mapLenArr(st, m.T)
	had := sel(sel(has, m.S), k)
	newLen := ite(had, x.idxSub(sel(lens, m.S), x.idxLit(1)), sel(lens, m.S))
	x.heapSet(st, ln, ls, sto(lens, m.S, newLen))
	x.heapSet(st, hn, hs, sto(has, m.S, sto(sel(has, m.S), k, "false")))
}

func (x *Exec) mapMake(st *State, t types.Type) Val {
	r := x.allocRef(st, "map")
	x.setTyp(st, r, t)
	hn, hs, has := x.mapHasArr(st, t)
	ln, ls, lens := x.mapLenArr(st, t)
	_, ks, _ := x.mapInfo(t)
	x.heapSet(st, hn, hs, sto(has, r, fmt.Sprintf("((as const (Array %s Bool)) false)", ks)))
	x.heapSet(st, ln, ls, sto(lens, r, x.idxLit(0)))
	return Val{T: t, K: KScalar, S: r}
}

var _ = strings.Contains
