package main

import (
	"fmt"
	"os"
	"go/token"
	"go/types"
	"strings"

	"golang.org/x/tools/go/ssa"
)

type pathEnd struct{}

func (x *Exec) posOf(in ssa.Instruction) string {
	p := in.Pos()
	if !p.IsValid() {
		// fall back to nearest positioned instruction in block
		if b := in.Block(); b != nil {
			for _, j := range b.Instrs {
				if j.Pos().IsValid() {
					p = j.Pos()
					if j == in {
						break
					}
				}
			}
		}
	}
	return x.P.pos(p)
}

// enterBlock handles phis and loop cut points, then executes the block.
func (x *Exec) enterBlock(st *State, fr *Frame, b, pred *ssa.BasicBlock) {
	if st.infeasible {
		x.npaths++
		return
	}
	x.npaths++
	if os.Getenv("GOVC_TRACE") != "" {
		pi := -1
		if pred != nil {
			pi = pred.Index
		}
		fmt.Fprintf(os.Stderr, "trace dry=%d depth=%d %s b%d<-b%d  %s\n", x.dry, x.depth(fr), fr.fn.Name(), b.Index, pi, pathTail(strings.Join(st.pathDesc, " ")))
	}
	if x.npaths > x.maxPaths {
		x.unsupported("path limit exceeded (%d)", x.maxPaths)
	}
	if x.dry > 0 && fr.fn == x.dryFrameFn && !x.dryBody[b] {
		x.dryStop(st)
		return
	}
	li := x.loops(fr.fn)
	if ord, isHeader := li.headers[b]; isHeader {
		isBack := pred != nil && li.backEdges[b][pred]
		if isBack {
			if x.dry > 0 {
				x.dryStop(st)
				return
			}
			if !fr.inLoops[b] {
				x.unsupported("back edge into loop %d that is not open", ord)
			}
			// evaluate phis for the back edge, check invariants, end path
			x.evalPhis(st, fr, b, pred)
			x.checkInvariants(st, fr, b, ord, "preserved")
			return
		}
		// loop entry
		x.evalPhis(st, fr, b, pred)
		x.checkInvariants(st, fr, b, ord, "entry")
		x.havocLoop(st, fr, b, ord)
		fr.inLoops[b] = true
		st.pathDesc = append(st.pathDesc, fmt.Sprintf("loop%d", ord))
		x.execFrom(st, fr, b, x.firstNonPhi(b))
		return
	}
	x.evalPhis(st, fr, b, pred)
	x.execFrom(st, fr, b, x.firstNonPhi(b))
}

func (x *Exec) firstNonPhi(b *ssa.BasicBlock) int {
	for i, in := range b.Instrs {
		if _, ok := in.(*ssa.Phi); !ok {
			return i
		}
	}
	return len(b.Instrs)
}

func (x *Exec) evalPhis(st *State, fr *Frame, b, pred *ssa.BasicBlock) {
	if pred == nil {
		return
	}
	pi := -1
	for i, p := range b.Preds {
		if p == pred {
			pi = i
		}
	}
	vals := map[*ssa.Phi]Val{}
	for _, in := range b.Instrs {
		phi, ok := in.(*ssa.Phi)
		if !ok {
			break
		}
		vals[phi] = x.get(st, fr, phi.Edges[pi])
	}
	for phi, v := range vals {
		v.T = phi.Type()
		fr.regs[phi] = v
	}
}

func (x *Exec) execFrom(st *State, fr *Frame, b *ssa.BasicBlock, idx int) {
	for i := idx; i < len(b.Instrs); i++ {
		if st.infeasible {
			return
		}
		in := b.Instrs[i]
		pos := x.posOf(in)
		x.curPos = pos
		x.curFrame = fr
		switch v := in.(type) {
		case *ssa.DebugRef:
		case *ssa.Phi:
		case *ssa.Alloc:
			fr.regs[v] = x.doAlloc(st, v.Type(), v.Comment)
			if !v.Heap {
				st.localRefs = append(st.localRefs, fr.regs[v].S)
			}
		case *ssa.BinOp:
			a, c := x.get(st, fr, v.X), x.get(st, fr, v.Y)
			fr.regs[v] = x.binop(st, fr, v.Op, a, c, v.Type(), pos)
		case *ssa.UnOp:
			fr.regs[v] = x.unop(st, fr, v, pos)
		case *ssa.ChangeType:
			fr.regs[v] = retype(x.get(st, fr, v.X), v.Type())
		case *ssa.Convert:
			fr.regs[v] = x.convert(st, x.get(st, fr, v.X), v.Type(), pos)
		case *ssa.ChangeInterface:
			val := x.get(st, fr, v.X)
			val.T = v.Type()
			fr.regs[v] = val
		case *ssa.MakeInterface:
			fr.regs[v] = x.makeIface(st, x.get(st, fr, v.X), v.Type())
		case *ssa.FieldAddr:
			p := x.get(st, fr, v.X)
			x.nilCheck(st, p, pos)
			a := x.fieldAddr(x.addrOf(p), v.Field)
			fr.regs[v] = Val{T: v.Type(), K: KAddr, A: a}
		case *ssa.Field:
			s := x.get(st, fr, v.X)
			fr.regs[v] = s.Fs[v.Field]
		case *ssa.IndexAddr:
			fr.regs[v] = x.indexAddr(st, fr, v, pos)
		case *ssa.Index:
			fr.regs[v] = x.indexVal(st, fr, v, pos)
		case *ssa.Slice:
			fr.regs[v] = x.sliceOp(st, fr, v, pos)
		case *ssa.Store:
			p := x.get(st, fr, v.Addr)
			x.nilCheck(st, p, pos)
			val := x.get(st, fr, v.Val)
			x.store(st, x.addrOf(p), retype(val, x.addrOf(p).T))
		case *ssa.MakeMap:
			if v.Reserve != nil {
				x.allocObligation(st, fr, v.Reserve, pos)
			}
			fr.regs[v] = x.mapMake(st, v.Type())
			if fr.parent == nil && mapStaysLocal(v) {
				// a map that is only read, written and returned by this function is out of reach of every callee
				// (and of every goroutine): its contents survive a "modifies *" call like a stack local's
				st.localRefs = append(st.localRefs, fr.regs[v].S)
			}
		case *ssa.MakeSlice:
			fr.regs[v] = x.makeSlice(st, fr, v, pos)
		case *ssa.MakeChan:
			x.allocObligation(st, fr, v.Size, pos)
			r := x.allocRef(st, "chan")
			x.setTyp(st, r, v.Type())
			sz := x.get(st, fr, v.Size)
			x.decls.Fun("chan.cap", []string{"Int"}, x.sorts.Idx())
			st.assume(eq(app("chan.cap", r), sz.S))
			fr.regs[v] = Val{T: v.Type(), K: KScalar, S: r}
		case *ssa.MakeClosure:
			fn := v.Fn.(*ssa.Function)
			var bs []Val
			for _, bnd := range v.Bindings {
				bs = append(bs, x.get(st, fr, bnd))
			}
			r := x.allocRef(st, "closure")
			fr.regs[v] = Val{T: v.Type(), K: KFunc, S: r, Clo: &Closure{Fn: fn, Bindings: bs}}
		case *ssa.MapUpdate:
			m := x.get(st, fr, v.Map)
			k := x.get(st, fr, v.Key)
			val := x.get(st, fr, v.Value)
			x.oblige(st, "nopanic", "nilmap", pos, not(eq(m.S, "0")), nil)
			st.assume(not(eq(m.S, "0")))
			x.mapUpdate(st, m, k.S, val)
		case *ssa.Lookup:
			fr.regs[v] = x.lookup(st, fr, v, pos)
		case *ssa.Range:
			fr.regs[v] = x.rangeInit(st, fr, v)
		case *ssa.Next:
			fr.regs[v] = x.next(st, fr, v)
		case *ssa.Extract:
			t := x.get(st, fr, v.Tuple)
			e := t.Fs[v.Index]
			fr.regs[v] = e
		case *ssa.TypeAssert:
			x.typeAssert(st, fr, v, pos, b, i)
			return
		case *ssa.Call:
			x.callInstr(st, fr, v, b, i, pos)
			return
		case *ssa.Defer:
			var args []Val
			for _, a := range v.Call.Args {
				args = append(args, x.get(st, fr, a))
			}
			var fv Val
			if v.Call.IsInvoke() || v.Call.StaticCallee() == nil {
				fv = x.get(st, fr, v.Call.Value)
			}
			fr.defers = append(fr.defers, DeferRec{Call: &v.Call, Args: args, Fn: fv, Pos: pos})
		case *ssa.RunDefers:
			x.runDefers(st, fr, func(st *State, fr *Frame) { x.execFrom(st, fr, b, i+1) })
			return
		case *ssa.Go:
			x.goStmt(st, fr, v, pos)
		case *ssa.Send:
			x.sendStmt(st, fr, v, pos)
		case *ssa.Select:
			x.selectStmt(st, fr, v, b, i, pos)
			return
		case *ssa.Panic:
			x.oblige(st, "nopanic", "panic", pos, "false", nil)
			return
		case *ssa.If:
			c := x.get(st, fr, v.Cond)
			tb, fb := b.Succs[0], b.Succs[1]
			if c.S == "true" {
				x.enterBlock(st, fr, tb, b)
				return
			}
			if c.S == "false" {
				x.enterBlock(st, fr, fb, b)
				return
			}
			st2, fr2 := st.clone(), fr.clone()
			st.assume(c.S)
			st.pathDesc = append(st.pathDesc, fmt.Sprintf("%s:T", lineOf(pos)))
			x.enterBlock(st, fr, tb, b)
			st2.assume(not(c.S))
			st2.pathDesc = append(st2.pathDesc, fmt.Sprintf("%s:F", lineOf(pos)))
			x.enterBlock(st2, fr2, fb, b)
			return
		case *ssa.Jump:
			x.enterBlock(st, fr, b.Succs[0], b)
			return
		case *ssa.Return:
			var res []Val
			for _, r := range v.Results {
				res = append(res, x.get(st, fr, r))
			}
			fr.onReturn(st, fr, res)
			return
		default:
			x.unsupported("instruction %T (%s)", in, in)
		}
	}
}

func lineOf(pos string) string {
	if i := strings.LastIndex(pos, ":"); i >= 0 {
		return pos[i+1:]
	}
	return pos
}

func (x *Exec) nilCheck(st *State, p Val, pos string) {
	if p.K == KAddr {
		return
	}
	if strings.Contains(p.S, "!") && (strings.HasPrefix(p.S, "new") || strings.HasPrefix(p.S, "local")) {
		return
	}
	g := not(eq(p.S, "0"))
	x.oblige(st, "nopanic", "nil", pos, g, nil)
	st.assume(g)
}

func (x *Exec) doAlloc(st *State, pt types.Type, comment string) Val {
	el := pt.(*types.Pointer).Elem()
	r := x.allocRef(st, "new")
	x.setTyp(st, r, el)
	p := Val{T: pt, K: KScalar, S: r}
	a := x.addrOf(p)
	if at, ok := el.Underlying().(*types.Array); ok {
		// zero array object in element memory
		if _, single := x.sorts.scalarSort(at.Elem()); !single {
			for _, l := range x.sorts.leaves(at.Elem()) {
				name := "mem_" + typeKey(at.Elem()) + l.suffix
				hs := "(Array Int (Array " + x.sorts.Idx() + " " + l.sort + "))"
				arr := x.heapArr(st, name, hs)
				zeroArr := x.zeroLeaf(leaf{sort: fmt.Sprintf("(Array %s %s)", x.sorts.Idx(), l.sort)})
				x.heapSet(st, name, hs, sto(arr, r, zeroArr))
			}
			return p
		}
		x.store(st, a, x.zeroVal(el))
		return p
	}
	x.store(st, a, x.zeroVal(el))
	return p
}

func (x *Exec) unop(st *State, fr *Frame, v *ssa.UnOp, pos string) Val {
	a := x.get(st, fr, v.X)
	switch v.Op {
	case token.MUL: // load
		x.nilCheck(st, a, pos)
		ad := x.addrOf(a)
		if ad.Global {
			if g, ok := v.X.(*ssa.Global); ok {
				if sv, ok := x.sentinelVal(st, g); ok {
					return sv
				}
			}
		}
		val := x.load(st, ad)
		val.T = v.Type()
		return retype(val, v.Type())
	case token.NOT:
		return Val{T: v.Type(), K: KScalar, S: not(a.S)}
	case token.SUB:
		if w, signed, ok := isIntType(a.T); ok {
			if x.mode == ModeBV {
				return Val{T: v.Type(), K: KScalar, S: app("bvneg", a.S)}
			}
			r := app("-", a.S)
			if !signed {
				r = x.wrapInt(r, w, false)
			}
			return Val{T: v.Type(), K: KScalar, S: r}
		}
		sort, _ := x.sorts.scalarSort(a.T)
		pfx := "f64"
		if sort == "F32" {
			pfx = "f32"
		}
		f := x.decls.Fun(pfx+".neg", []string{sort}, sort)
		return Val{T: v.Type(), K: KScalar, S: app(f, a.S)}
	case token.XOR:
		w, signed, _ := isIntType(a.T)
		if x.mode == ModeBV {
			return Val{T: v.Type(), K: KScalar, S: app("bvnot", a.S)}
		}
		if signed {
			return Val{T: v.Type(), K: KScalar, S: app("-", app("-", a.S), "1")}
		}
		m := pow2(w)
		m.Sub(m, bigOne)
		return Val{T: v.Type(), K: KScalar, S: app("-", m.String(), a.S)}
	case token.ARROW:
		return x.recvOp(st, fr, v, a, pos)
	}
	x.unsupported("unop %s", v.Op)
	return Val{}
}

func (x *Exec) makeIface(st *State, v Val, it types.Type) Val {
	if v.K == KIface {
		v.T = it
		return v
	}
	tag := x.typeId(v.T)
	switch v.T.Underlying().(type) {
	case *types.Pointer, *types.Map, *types.Chan, *types.Signature:
		if v.K == KAddr {
			x.unsupported("interior pointer boxed into interface")
		}
		// a nil pointer in an interface is still a non-nil interface
		return Val{T: it, K: KIface, Tag: tag, Pay: v.S, DynT: v.T}
	}
	// box
	r := x.allocRef(st, "box")
	a := &Addr{Prefix: "box_" + typeKey(v.T), Idx: []string{r}, T: v.T}
	x.store(st, a, v)
	return Val{T: it, K: KIface, Tag: tag, Pay: r, DynT: v.T}
}

func (x *Exec) unbox(st *State, iv Val, t types.Type) Val {
	switch t.Underlying().(type) {
	case *types.Pointer, *types.Map, *types.Chan:
		return Val{T: t, K: KScalar, S: iv.Pay}
	case *types.Signature:
		return Val{T: t, K: KFunc, S: iv.Pay}
	case *types.Interface:
		iv.T = t
		return iv
	}
	a := &Addr{Prefix: "box_" + typeKey(t), Idx: []string{iv.Pay}, T: t}
	return x.load(st, a)
}

func (x *Exec) typeAssert(st *State, fr *Frame, v *ssa.TypeAssert, pos string, b *ssa.BasicBlock, i int) {
	iv := x.get(st, fr, v.X)
	at := v.AssertedType
	if _, isIface := at.Underlying().(*types.Interface); isIface {
		// interface-to-interface assertion: succeeds iff the value is non-nil and its dynamic type implements the interface
		ok := not(eq(iv.Tag, "0"))
		if ai := at.Underlying().(*types.Interface); ai.NumMethods() > 0 {
			impl := x.implTerm(iv.Tag, at)
			if kt, known := st.knownTag[iv.Tag]; known {
				impl = fmt.Sprint(types.Implements(kt, ai))
			} else if iv.DynT != nil {
				impl = fmt.Sprint(types.Implements(iv.DynT, ai))
			} else if types.AssignableTo(iv.T, at) {
				impl = "true"
			}
			ok = and(ok, impl)
		}
		res := iv
		res.T = at
		if v.CommaOk {
			fr.regs[v] = Val{T: v.Type(), K: KTuple, Fs: []Val{res, {T: types.Typ[types.Bool], K: KScalar, S: x.freshBoolImplied(st, ok)}}}
		} else {
			x.oblige(st, "nopanic", "typeassert", pos, ok, nil)
			st.assume(ok)
			fr.regs[v] = res
		}
		x.execFrom(st, fr, b, i+1)
		return
	}
	okT := eq(iv.Tag, x.typeId(at))
	if kt, known := st.knownTag[iv.Tag]; known {
		if types.Identical(kt, at) {
			okT = "true"
		} else {
			okT = "false"
		}
	} else if iv.DynT != nil {
		if types.Identical(iv.DynT, at) {
			okT = "true"
		} else {
			okT = "false"
		}
	}
	if v.CommaOk {
		// fork so that the success branch knows the tag
		if okT == "true" || okT == "false" {
			var res Val
			if okT == "true" {
				res = x.unbox(st, iv, at)
			} else {
				res = x.zeroVal(at)
			}
			fr.regs[v] = Val{T: v.Type(), K: KTuple, Fs: []Val{res, {T: types.Typ[types.Bool], K: KScalar, S: okT}}}
			x.execFrom(st, fr, b, i+1)
			return
		}
		st2, fr2 := st.clone(), fr.clone()
		st.assume(okT)
		st.knownTag[iv.Tag] = at
		fr.regs[v] = Val{T: v.Type(), K: KTuple, Fs: []Val{x.unbox(st, iv, at), {T: types.Typ[types.Bool], K: KScalar, S: "true"}}}
		x.execFrom(st, fr, b, i+1)
		st2.assume(not(okT))
		fr2.regs[v] = Val{T: v.Type(), K: KTuple, Fs: []Val{x.zeroVal(at), {T: types.Typ[types.Bool], K: KScalar, S: "false"}}}
		x.execFrom(st2, fr2, b, i+1)
		return
	}
	x.oblige(st, "nopanic", "typeassert", pos, okT, nil)
	st.assume(okT)
	if okT != "false" {
		st.knownTag[iv.Tag] = at
	}
	fr.regs[v] = x.unbox(st, iv, at)
	x.execFrom(st, fr, b, i+1)
}

func (x *Exec) freshBoolImplied(st *State, necessary string) string {
	c := x.freshConst("ok", "Bool")
	st.assume(implies(c, necessary))
	return c
}

func (x *Exec) indexAddr(st *State, fr *Frame, v *ssa.IndexAddr, pos string) Val {
	base := x.get(st, fr, v.X)
	i := x.toIdx(x.get(st, fr, v.Index))
	if base.K == KSlice {
		g := and(x.idxGe0(i), x.idxLt(i, base.Len))
		x.oblige(st, "nopanic", "index", pos, g, nil)
		st.assume(g)
		return Val{T: v.Type(), K: KAddr, A: x.sliceElemAddr(base, i)}
	}
	// pointer to array
	x.nilCheck(st, base, pos)
	ad := x.addrOf(base)
	at := ad.T.Underlying().(*types.Array)
	g := and(x.idxGe0(i), x.idxLt(i, x.idxLit(at.Len())))
	x.oblige(st, "nopanic", "index", pos, g, nil)
	st.assume(g)
	return Val{T: v.Type(), K: KAddr, A: x.elemAddr(ad, i)}
}

// toIdx converts an integer Val to the index sort.
func (x *Exec) toIdx(v Val) string {
	if x.mode != ModeBV {
		return v.S
	}
	w, signed, _ := isIntType(v.T)
	switch {
	case w == 64:
		return v.S
	case signed:
		return fmt.Sprintf("((_ sign_extend %d) %s)", 64-w, v.S)
	default:
		return fmt.Sprintf("((_ zero_extend %d) %s)", 64-w, v.S)
	}
}

func (x *Exec) indexVal(st *State, fr *Frame, v *ssa.Index, pos string) Val {
	base := x.get(st, fr, v.X)
	i := x.toIdx(x.get(st, fr, v.Index))
	switch u := base.T.Underlying().(type) {
	case *types.Array:
		g := and(x.idxGe0(i), x.idxLt(i, x.idxLit(u.Len())))
		x.oblige(st, "nopanic", "index", pos, g, nil)
		st.assume(g)
		if pn, ok := packedArray(base.T); ok {
			if c, isC := v.Index.(*ssa.Const); isC {
				return Val{T: v.Type(), K: KScalar, S: x.byteAt(base.S, int(c.Int64()), pn)}
			}
			x.unsupported("symbolic index into a packed byte array value")
		}
		e := Val{T: v.Type(), K: KScalar, S: sel(base.S, i)}
		if _, isSig := v.Type().Underlying().(*types.Signature); isSig {
			e.K = KFunc
		}
		x.assumeTyping(st, e)
		return e
	case *types.Basic: // string indexing
		x.decls.Fun("gstr.at", []string{"Str", x.sorts.Idx()}, x.byteSort())
		g := and(x.idxGe0(i), x.idxLt(i, x.strLen(base.S)))
		x.oblige(st, "nopanic", "index", pos, g, nil)
		st.assume(g)
		e := Val{T: v.Type(), K: KScalar, S: app("gstr.at", base.S, i)}
		x.assumeTyping(st, e)
		return e
	}
	x.unsupported("index on %s", base.T)
	return Val{}
}

func (x *Exec) sliceOp(st *State, fr *Frame, v *ssa.Slice, pos string) Val {
	base := x.get(st, fr, v.X)
	var lo, hi, mx string
	if v.Low != nil {
		lo = x.toIdx(x.get(st, fr, v.Low))
	} else {
		lo = x.idxLit(0)
	}
	switch base.K {
	case KSlice:
		if v.High != nil {
			hi = x.toIdx(x.get(st, fr, v.High))
		} else {
			hi = base.Len
		}
		if v.Max != nil {
			mx = x.toIdx(x.get(st, fr, v.Max))
		} else {
			mx = base.Cap
		}
		g := and(x.idxGe0(lo), x.idxLe(lo, hi), x.idxLe(hi, mx), x.idxLe(mx, base.Cap))
		x.oblige(st, "nopanic", "slice", pos, g, nil)
		st.assume(g)
		r := Val{T: v.Type(), K: KSlice, Ref: base.Ref, Off: x.idxAdd(base.Off, lo), Len: x.idxSub(hi, lo), Cap: x.idxSub(mx, lo)}
		return x.nameVal(st, r, "sl")
	case KScalar, KAddr:
		if pt, ok := base.T.Underlying().(*types.Pointer); ok {
			at := pt.Elem().Underlying().(*types.Array)
			if base.K == KAddr {
				x.unsupported("slicing an array stored inside another object")
			}
			n := x.idxLit(at.Len())
			if v.High != nil {
				hi = x.toIdx(x.get(st, fr, v.High))
			} else {
				hi = n
			}
			mx = n
			if v.Max != nil {
				mx = x.toIdx(x.get(st, fr, v.Max))
			}
			g := and(x.idxGe0(lo), x.idxLe(lo, hi), x.idxLe(hi, mx), x.idxLe(mx, n))
			x.oblige(st, "nopanic", "slice", pos, g, nil)
			st.assume(g)
			return Val{T: v.Type(), K: KSlice, Ref: base.S, Off: lo, Len: x.idxSub(hi, lo), Cap: x.idxSub(mx, lo)}
		}
		// string slicing
		if bt, ok := base.T.Underlying().(*types.Basic); ok && bt.Info()&types.IsString != 0 {
			if v.High != nil {
				hi = x.toIdx(x.get(st, fr, v.High))
			} else {
				hi = x.strLen(base.S)
			}
			g := and(x.idxGe0(lo), x.idxLe(lo, hi), x.idxLe(hi, x.strLen(base.S)))
			x.oblige(st, "nopanic", "slice", pos, g, nil)
			st.assume(g)
			x.decls.Fun("gstr.sub", []string{"Str", x.sorts.Idx(), x.sorts.Idx()}, "Str")
			r := app("gstr.sub", base.S, lo, hi)
			st.assume(eq(x.strLen(r), x.idxSub(hi, lo)))
			return Val{T: v.Type(), K: KScalar, S: r}
		}
	}
	x.unsupported("slice of %s", base.T)
	return Val{}
}

// memcap: an uninterpreted constant standing for "what fits in memory". Known about it: it is at least 65536, and (in
// functions with an allocbound directive) the capacity of every existing slice and the length of every existing map are
// below it. An allocation sized by a number that is not bounded by existing data (or by constants) cannot be shown to be
// below 65536*memcap - which is how "memory proportional to the data, not to numbers in the request" is checked.
func (x *Exec) memcap() string {
	if _, ok := x.decls.set["memcap"]; !ok {
		x.decls.Const("memcap", "Int")
		x.ensurePre("(>= memcap 65536)")
	}
	return "memcap"
}

func (x *Exec) allocObligation(st *State, fr *Frame, size ssa.Value, pos string) {
	if x.con == nil || len(x.con.AllocProps) == 0 || x.mode != ModeInt {
		return
	}
	if _, isConst := size.(*ssa.Const); isConst {
		return
	}
	sz := x.toIdx(x.get(st, fr, size))
	x.oblige(st, "alloc", "proportional", pos, app("<=", sz, app("*", "65536", x.memcap())), x.con.AllocProps)
}

func (x *Exec) makeSlice(st *State, fr *Frame, v *ssa.MakeSlice, pos string) Val {
	x.allocObligation(st, fr, v.Cap, pos)
	n := x.toIdx(x.get(st, fr, v.Len))
	c := x.toIdx(x.get(st, fr, v.Cap))
	g := and(x.idxGe0(n), x.idxLe(n, c))
	x.oblige(st, "nopanic", "makeslice", pos, g, nil)
	st.assume(g)
	return x.newSlice(st, v.Type(), n, c)
}

func (x *Exec) newSlice(st *State, t types.Type, n, c string) Val {
	r := x.allocRef(st, "arr")
	et := t.Underlying().(*types.Slice).Elem()
	x.setTyp(st, r, t)
	// zero the backing array
	for _, l := range x.sorts.leaves(et) {
		name := "mem_" + typeKey(et) + l.suffix
		hs := "(Array Int (Array " + x.sorts.Idx() + " " + l.sort + "))"
		arr := x.heapArr(st, name, hs)
		zeroArr := x.zeroLeaf(leaf{sort: fmt.Sprintf("(Array %s %s)", x.sorts.Idx(), l.sort)})
		x.heapSet(st, name, hs, sto(arr, r, zeroArr))
	}
	return Val{T: t, K: KSlice, Ref: r, Off: x.idxLit(0), Len: n, Cap: c}
}

func (x *Exec) lookup(st *State, fr *Frame, v *ssa.Lookup, pos string) Val {
	m := x.get(st, fr, v.X)
	k := x.get(st, fr, v.Index)
	if _, isMap := m.T.Underlying().(*types.Map); !isMap {
		// string index
		i := x.toIdx(k)
		x.decls.Fun("gstr.at", []string{"Str", x.sorts.Idx()}, x.byteSort())
		g := and(x.idxGe0(i), x.idxLt(i, x.strLen(m.S)))
		x.oblige(st, "nopanic", "index", pos, g, nil)
		st.assume(g)
		e := Val{T: v.Type(), K: KScalar, S: app("gstr.at", m.S, i)}
		x.assumeTyping(st, e)
		return e
	}
	val, has := x.mapLookup(st, m, k.S)
	if x.mode == ModeInt {
		// a map that holds a key is not empty
		st.assume(implies(has, app("<=", "1", x.mapLen(st, m))))
	}
	if v.CommaOk {
		return Val{T: v.Type(), K: KTuple, Fs: []Val{val, {T: types.Typ[types.Bool], K: KScalar, S: has}}}
	}
	return val
}

func (x *Exec) rangeInit(st *State, fr *Frame, v *ssa.Range) Val {
	m := x.get(st, fr, v.X)
	if _, isMap := m.T.Underlying().(*types.Map); !isMap {
		x.unsupported("range over %s", m.T)
	}
	_, ks, _ := x.mapInfo(m.T)
	it := &IterState{Map: m, Visited: fmt.Sprintf("((as const (Array %s Bool)) false)", ks), Count: x.idxLit(0)}
	it.Start = st.define(x, "rangestart", "(Array "+ks+" Bool)", sel(x.heapArrCur(st, m.T, ".has"), m.S))
	st.iters[v] = it
	return Val{T: v.Type(), K: KScalar, S: "0"}
}

func (x *Exec) next(st *State, fr *Frame, v *ssa.Next) Val {
	rv := v.Iter.(*ssa.Range)
	it := st.iters[rv]
	if it == nil {
		x.unsupported("next on unknown iterator")
	}
	m := it.Map
	mt := m.T.Underlying().(*types.Map)
	_, ks, _ := x.mapInfo(m.T)
	ok := x.freshConst("it.ok", "Bool")
	k := x.freshConst("it.key", ks)
	kv := Val{T: mt.Key(), K: KScalar, S: k}
	x.assumeTyping(st, kv)
	has := x.mapHas(st, m, k)
	st.assume(implies(ok, and(has, not(sel(it.Visited, k)))))
	// exhaustion: when !ok every present key was visited
	qk := "qk!" + fmt.Sprint(x.nfresh)
	// Go's guarantees for a map that is modified while it is ranged over: deleted keys are not produced; added keys may or
	// may not be produced. So "exhausted => every present key was visited" holds if no key was added to THIS map since the
	// range started, and the cardinality bookkeeping holds if its key set is unchanged. Both are stated conditionally.
	hasNow := sel(x.heapArrCur(st, m.T, ".has"), m.S)
	noAdd := fmt.Sprintf("(forall ((%s %s)) (=> (select %s %s) (select %s %s)))", qk, ks, hasNow, qk, it.Start, qk)
	if hasNow == it.Start {
		noAdd = "true"
	}
	st.assume(implies(and(noAdd, not(ok)), fmt.Sprintf("(forall ((%s %s)) (=> (select %s %s) %s))", qk, ks, hasNow, qk, sel(it.Visited, qk))))
	same := eq(hasNow, it.Start)
	mlen := x.mapLen(st, m)
	st.assume(implies(same, x.idxLe(it.Count, mlen)))
	st.assume(implies(and(same, ok), x.idxLt(it.Count, mlen)))
	st.assume(implies(and(same, not(ok)), eq(it.Count, mlen)))
	val := x.mapGet(st, m, k)
	val = x.nameVal(st, val, "it.val")
	x.assumeTyping(st, val)
	newVisited := st.define(x, "visited", "(Array "+ks+" Bool)", ite(ok, sto(it.Visited, k, "true"), it.Visited))
	newCount := st.define(x, "itcount", x.sorts.Idx(), ite(ok, x.idxAdd(it.Count, x.idxLit(1)), it.Count))
	it.Visited, it.Count = newVisited, newCount
	return Val{T: v.Type(), K: KTuple, Fs: []Val{{T: types.Typ[types.Bool], K: KScalar, S: ok}, kv, val}}
}

func (x *Exec) heapArrCur(st *State, mapT types.Type, which string) string {
	switch which {
	case ".has":
		_, _, c := x.mapHasArr(st, mapT)
		return c
	case ".len":
		_, _, c := x.mapLenArr(st, mapT)
		return c
	}
	panic("heapArrCur")
}

// loopAddsKeys: does the loop contain a map store (m[k] = v) on a map of the same type (directly in this function)?
// Calls that may add keys show up as "all" or are covered by the conservative flag of the iterator at run time.
func (x *Exec) loopAddsKeys(fn *ssa.Function, h *ssa.BasicBlock, t types.Type) bool {
	li := x.loops(fn)
	for b := range li.body[h] {
		for _, in := range b.Instrs {
			switch n := in.(type) {
			case *ssa.MapUpdate:
				if types.Identical(n.Map.Type().Underlying(), t.Underlying()) {
					return true
				}
			case *ssa.Call:
				if _, isB := n.Call.Value.(*ssa.Builtin); !isB {
					return true
				}
			}
		}
	}
	return false
}

// mapStaysLocal: every use of the freshly made map is a lookup, an update (as the map operand), a range, len(),
// a comparison or a return - it is never stored, passed, captured, sent or converted, so nothing outside the
// function can hold a reference to it while the function runs.
func mapStaysLocal(m *ssa.MakeMap) bool {
	refs := m.Referrers()
	if refs == nil {
		return false
	}
	for _, r := range *refs {
		switch u := r.(type) {
		case *ssa.DebugRef:
		case *ssa.MapUpdate:
			if u.Map != ssa.Value(m) || u.Key == ssa.Value(m) || u.Value == ssa.Value(m) {
				return false
			}
		case *ssa.Lookup:
			if u.X != ssa.Value(m) || u.Index == ssa.Value(m) {
				return false
			}
		case *ssa.Range:
		case *ssa.BinOp:
		case *ssa.Return:
		case *ssa.Call:
			b, ok := u.Call.Value.(*ssa.Builtin)
			if !ok || (b.Name() != "len" && b.Name() != "delete") {
				return false
			}
			if b.Name() == "delete" && len(u.Call.Args) == 2 && u.Call.Args[1] == ssa.Value(m) {
				return false
			}
		default:
			return false
		}
	}
	return true
}
