package main

import (
	"fmt"
	"math/big"
	"strings"
	"unicode"
)

// Spec expression AST.
type Expr interface{ String() string }

type (
	EIdent struct{ Name string }
	ENum   struct{ Val *big.Int }
	EBool  struct{ Val bool }
	ENil   struct{}
	EBin   struct {
		Op   string
		L, R Expr
	}
	EUn struct {
		Op string
		X  Expr
	}
	QVar struct {
		Name string
		Type string
	}
	EQuant struct {
		Forall bool
		Vars   []QVar
		Body   Expr
	}
	ECall struct {
		Fn   string
		Args []Expr
	}
	ESel struct {
		X    Expr
		Name string
	}
	EIndex struct{ X, I Expr }
	ESlice struct{ X, Lo, Hi Expr }
	ECast  struct {
		X Expr
		T string
	}
	EDeref struct{ X Expr }
	EIte   struct{ C, A, B Expr }
)

func (e EIdent) String() string { return e.Name }
func (e ENum) String() string   { return e.Val.String() }
func (e EBool) String() string  { return fmt.Sprint(e.Val) }
func (e ENil) String() string   { return "nil" }
func (e EBin) String() string   { return "(" + e.L.String() + " " + e.Op + " " + e.R.String() + ")" }
func (e EUn) String() string    { return e.Op + e.X.String() }
func (e EQuant) String() string {
	q := "exists"
	if e.Forall {
		q = "forall"
	}
	var vs []string
	for _, v := range e.Vars {
		vs = append(vs, v.Name+" "+v.Type)
	}
	return "(" + q + " " + strings.Join(vs, ", ") + " :: " + e.Body.String() + ")"
}
func (e ECall) String() string {
	var as []string
	for _, a := range e.Args {
		as = append(as, a.String())
	}
	return e.Fn + "(" + strings.Join(as, ", ") + ")"
}
func (e ESel) String() string   { return e.X.String() + "." + e.Name }
func (e EIndex) String() string { return e.X.String() + "[" + e.I.String() + "]" }
func (e ESlice) String() string { return e.X.String() + "[:]" }
func (e ECast) String() string  { return e.X.String() + ".(" + e.T + ")" }
func (e EDeref) String() string { return "*" + e.X.String() }
func (e EIte) String() string {
	return "ite(" + e.C.String() + ", " + e.A.String() + ", " + e.B.String() + ")"
}

// ---- lexer ----

type tok struct {
	kind string // id, num, op, eof
	s    string
}

func lex(src string) ([]tok, error) {
	var out []tok
	i := 0
	rs := []rune(src)
	for i < len(rs) {
		c := rs[i]
		switch {
		case unicode.IsSpace(c):
			i++
		case unicode.IsLetter(c) || c == '_' || c == '$':
			j := i + 1
			for j < len(rs) && (unicode.IsLetter(rs[j]) || unicode.IsDigit(rs[j]) || rs[j] == '_' || rs[j] == '$') {
				j++
			}
			out = append(out, tok{"id", string(rs[i:j])})
			i = j
		case unicode.IsDigit(c):
			j := i + 1
			for j < len(rs) && (unicode.IsDigit(rs[j]) || rs[j] == 'x' || (rs[j] >= 'a' && rs[j] <= 'f') || (rs[j] >= 'A' && rs[j] <= 'F')) {
				j++
			}
			out = append(out, tok{"num", string(rs[i:j])})
			i = j
		default:
			three := ""
			if i+2 < len(rs) {
				three = string(rs[i : i+3])
			}
			two := ""
			if i+1 < len(rs) {
				two = string(rs[i : i+2])
			}
			if three == "==>" || three == "<==" {
				out = append(out, tok{"op", three})
				i += 3
			} else if two == "==" || two == "!=" || two == "<=" || two == ">=" || two == "&&" || two == "||" || two == "::" || two == "<<" || two == ">>" {
				out = append(out, tok{"op", two})
				i += 2
			} else if strings.ContainsRune("+-*/%<>!()[].,:=&|^", c) {
				out = append(out, tok{"op", string(c)})
				i++
			} else {
				return nil, fmt.Errorf("unexpected character %q in %q", c, src)
			}
		}
	}
	out = append(out, tok{"eof", ""})
	return out, nil
}


type parser struct {
	toks []tok
	p    int
	src  string
}

func ParseExpr(src string) (e Expr, err error) {
	toks, err := lex(src)
	if err != nil {
		return nil, err
	}
	ps := &parser{toks: toks, src: src}
	defer func() {
		if r := recover(); r != nil {
			if pe, ok := r.(parseErr); ok {
				err = fmt.Errorf("%s in %q", string(pe), src)
				return
			}
			panic(r)
		}
	}()
	e = ps.expr()
	if ps.peek().kind != "eof" {
		ps.fail("trailing tokens at " + ps.peek().s)
	}
	return e, nil
}

type parseErr string

func (ps *parser) fail(m string) { panic(parseErr(m)) }
func (ps *parser) peek() tok     { return ps.toks[ps.p] }
func (ps *parser) next() tok     { t := ps.toks[ps.p]; ps.p++; return t }
func (ps *parser) isOp(s string) bool {
	t := ps.peek()
	return t.kind == "op" && t.s == s
}
func (ps *parser) isId(s string) bool {
	t := ps.peek()
	return t.kind == "id" && t.s == s
}
func (ps *parser) expect(s string) {
	t := ps.next()
	if t.s != s {
		ps.fail(fmt.Sprintf("expected %q, got %q", s, t.s))
	}
}

func (ps *parser) expr() Expr {
	if ps.isId("forall") || ps.isId("exists") {
		fa := ps.next().s == "forall"
		var vars []QVar
		for {
			name := ps.next()
			if name.kind != "id" {
				ps.fail("quantifier variable expected")
			}
			ty := ps.typeString()
			vars = append(vars, QVar{name.s, ty})
			if ps.isOp(",") {
				ps.next()
				continue
			}
			break
		}
		ps.expect("::")
		body := ps.expr()
		return EQuant{fa, vars, body}
	}
	return ps.impl()
}

// typeString consumes tokens forming a Go type: sequences of * [ ] id . until , :: ) =
func (ps *parser) typeString() string {
	var b strings.Builder
	depth := 0
	for {
		t := ps.peek()
		if t.kind == "eof" {
			break
		}
		if depth == 0 && t.kind == "op" && (t.s == "," || t.s == "::" || t.s == ")" || t.s == "=") {
			break
		}
		if t.s == "[" || t.s == "(" {
			depth++
		}
		if t.s == "]" || t.s == ")" {
			depth--
		}
		if t.kind == "id" && b.Len() > 0 {
			last := b.String()[b.Len()-1]
			if last != '.' && last != '*' && last != ']' && last != '[' && last != '/' {
				b.WriteByte(' ')
			}
		}
		b.WriteString(t.s)
		ps.next()
	}
	return b.String()
}

func (ps *parser) impl() Expr {
	l := ps.or()
	if ps.isOp("==>") {
		ps.next()
		r := ps.implRHS()
		return EBin{"==>", l, r}
	}
	return l
}

func (ps *parser) implRHS() Expr {
	if ps.isId("forall") || ps.isId("exists") {
		return ps.expr()
	}
	return ps.impl()
}

func (ps *parser) or() Expr {
	l := ps.and()
	for ps.isOp("||") {
		ps.next()
		var r Expr
		if ps.isId("forall") || ps.isId("exists") {
			r = ps.expr()
		} else {
			r = ps.and()
		}
		l = EBin{"||", l, r}
	}
	return l
}

func (ps *parser) and() Expr {
	l := ps.cmp()
	for ps.isOp("&&") {
		ps.next()
		var r Expr
		if ps.isId("forall") || ps.isId("exists") {
			r = ps.expr()
		} else {
			r = ps.cmp()
		}
		l = EBin{"&&", l, r}
	}
	return l
}

func (ps *parser) cmp() Expr {
	l := ps.add()
	for {
		t := ps.peek()
		if t.kind == "op" && (t.s == "==" || t.s == "!=" || t.s == "<" || t.s == "<=" || t.s == ">" || t.s == ">=") {
			ps.next()
			r := ps.add()
			l = EBin{t.s, l, r}
			continue
		}
		return l
	}
}

func (ps *parser) add() Expr {
	l := ps.mul()
	for {
		t := ps.peek()
		if t.kind == "op" && (t.s == "+" || t.s == "-" || t.s == "|" || t.s == "^") {
			ps.next()
			r := ps.mul()
			l = EBin{t.s, l, r}
			continue
		}
		return l
	}
}

func (ps *parser) mul() Expr {
	l := ps.unary()
	for {
		t := ps.peek()
		if t.kind == "op" && (t.s == "*" || t.s == "/" || t.s == "%" || t.s == "<<" || t.s == ">>" || t.s == "&") {
			ps.next()
			r := ps.unary()
			l = EBin{t.s, l, r}
			continue
		}
		return l
	}
}

func (ps *parser) unary() Expr {
	if ps.isOp("!") {
		ps.next()
		return EUn{"!", ps.unary()}
	}
	if ps.isOp("-") {
		ps.next()
		return EUn{"-", ps.unary()}
	}
	if ps.isOp("*") {
		ps.next()
		return EDeref{ps.unary()}
	}
	return ps.postfix()
}

func (ps *parser) postfix() Expr {
	e := ps.primary()
	for {
		switch {
		case ps.isOp("."):
			ps.next()
			if ps.isOp("(") {
				ps.next()
				ty := ps.typeString()
				ps.expect(")")
				e = ECast{e, ty}
				continue
			}
			t := ps.next()
			if t.kind != "id" && t.kind != "num" {
				ps.fail("field name expected")
			}
			e = ESel{e, t.s}
		case ps.isOp("["):
			ps.next()
			var lo, hi Expr
			if !ps.isOp(":") {
				lo = ps.expr()
			}
			if ps.isOp(":") {
				ps.next()
				if !ps.isOp("]") {
					hi = ps.expr()
				}
				ps.expect("]")
				e = ESlice{e, lo, hi}
			} else {
				ps.expect("]")
				e = EIndex{e, lo}
			}
		case ps.isOp("("):
			id, ok := e.(EIdent)
			if !ok {
				ps.fail("call of non-identifier")
			}
			ps.next()
			var args []Expr
			for !ps.isOp(")") {
				args = append(args, ps.expr())
				if ps.isOp(",") {
					ps.next()
				}
			}
			ps.expect(")")
			if id.Name == "ite" && len(args) == 3 {
				e = EIte{args[0], args[1], args[2]}
			} else {
				e = ECall{id.Name, args}
			}
		default:
			return e
		}
	}
}

func (ps *parser) primary() Expr {
	t := ps.next()
	switch t.kind {
	case "num":
		n := new(big.Int)
		if _, ok := n.SetString(t.s, 0); !ok {
			ps.fail("bad number " + t.s)
		}
		return ENum{n}
	case "id":
		switch t.s {
		case "true":
			return EBool{true}
		case "false":
			return EBool{false}
		case "nil":
			return ENil{}
		}
		return EIdent{t.s}
	case "op":
		if t.s == "(" {
			e := ps.expr()
			ps.expect(")")
			return e
		}
	}
	ps.fail("unexpected token " + t.s)
	return nil
}
