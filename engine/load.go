package main

import (
	"fmt"
	"go/token"
	"go/types"
	"os"
	"regexp"
	"sort"
	"strings"

	"golang.org/x/tools/go/packages"
	"golang.org/x/tools/go/ssa"
	"golang.org/x/tools/go/ssa/ssautil"
)

const repoModule = "github.com/marekgalovic/anndb"

// Program is the loaded /repo tree in SSA form.
type Program struct {
	Fset  *token.FileSet
	Prog  *ssa.Program
	Pkgs  []*packages.Package
	SSA   map[string]*ssa.Package // by import path
	Funcs map[string]*ssa.Function
	// contract comment lines per package path
	ContractText map[string][]ContractLine
}

type ContractLine struct {
	File string
	Line int
	Text string
}

func repoDir() string {
	if d := os.Getenv("VERIF_REPO"); d != "" {
		return d
	}
	return "/repo"
}

func LoadProgram(patterns []string) (*Program, error) {
	cfg := &packages.Config{
		Mode:       packages.LoadAllSyntax,
		Dir:        repoDir(),
		BuildFlags: []string{"-tags=verif"},
		Env: append(os.Environ(), "GOFLAGS=-mod=mod", "GOPROXY=off", "GOSUMDB=off",
			"GOTOOLCHAIN=local", "CGO_ENABLED=0"),
	}
	pkgs, err := packages.Load(cfg, patterns...)
	if err != nil {
		return nil, err
	}
	nerr := 0
	packages.Visit(pkgs, nil, func(p *packages.Package) {
		for _, e := range p.Errors {
			if strings.HasPrefix(p.PkgPath, repoModule) || p.PkgPath == "" {
				fmt.Fprintf(os.Stderr, "load error: %s: %v\n", p.PkgPath, e)
				nerr++
			}
		}
	})
	if nerr > 0 {
		return nil, fmt.Errorf("%d load errors in repository packages", nerr)
	}
	prog, _ := ssautil.AllPackages(pkgs, ssa.InstantiateGenerics|ssa.GlobalDebug)
	prog.Build()
	P := &Program{Fset: prog.Fset, Prog: prog, Pkgs: pkgs, SSA: map[string]*ssa.Package{},
		Funcs: map[string]*ssa.Function{}, ContractText: map[string][]ContractLine{}}
	for _, sp := range prog.AllPackages() {
		P.SSA[sp.Pkg.Path()] = sp
	}
	for fn := range ssautil.AllFunctions(prog) {
		P.Funcs[FuncName(fn)] = fn
	}
	// collect //@ lines from contract files of repository packages
	packages.Visit(pkgs, nil, func(p *packages.Package) {
		if !strings.HasPrefix(p.PkgPath, repoModule) {
			return
		}
		for _, f := range p.Syntax {
			fname := P.Fset.Position(f.Pos()).Filename
			if !strings.HasSuffix(fname, "contracts_verif.go") {
				continue
			}
			for _, cg := range f.Comments {
				for _, c := range cg.List {
					t := c.Text
					if strings.HasPrefix(t, "//@") {
						P.ContractText[p.PkgPath] = append(P.ContractText[p.PkgPath], ContractLine{
							File: fname, Line: P.Fset.Position(c.Pos()).Line, Text: strings.TrimSpace(t[3:])})
					}
				}
			}
		}
	})
	return P, nil
}

// FuncName gives the canonical name used in contract files:
//
//	pkgpath.Func, pkgpath.(*T).Method, pkgpath.(T).Method, parent$N for closures.
//
// The repository module prefix is stripped ("utils.UuidMod").
func FuncName(fn *ssa.Function) string {
	if fn.Parent() != nil {
		// anonymous function: parent$idx
		p := fn.Parent()
		for i, af := range p.AnonFuncs {
			if af == fn {
				return fmt.Sprintf("%s$%d", FuncName(p), i+1)
			}
		}
		return FuncName(p) + "$?"
	}
	s := fn.String() // e.g. (*github.com/x/y.T).M or github.com/x/y.F
	return shortName(s)
}

func shortName(s string) string {
	s = strings.ReplaceAll(s, repoModule+"/", "")
	s = strings.ReplaceAll(s, repoModule+".", "anndb.")
	// (*utils.priorityQueue).Pop stays
	return s
}

func (P *Program) Lookup(name string) *ssa.Function {
	if f, ok := P.Funcs[name]; ok {
		return f
	}
	return nil
}

func (P *Program) FuncNames(prefix string) []string {
	var out []string
	for n := range P.Funcs {
		if strings.HasPrefix(n, prefix) {
			out = append(out, n)
		}
	}
	sort.Strings(out)
	return out
}

var reByte = regexp.MustCompile(`\bbyte\b`)
var reRune = regexp.MustCompile(`\brune\b`)

func typeShort(t types.Type) string {
	s := shortName(types.TypeString(t, nil))
	s = reByte.ReplaceAllString(s, "uint8")
	s = reRune.ReplaceAllString(s, "int32")
	return s
}

func (P *Program) pos(p token.Pos) string {
	if !p.IsValid() {
		return "-"
	}
	ps := P.Fset.Position(p)
	f := ps.Filename
	f = strings.TrimPrefix(f, repoDir()+"/")
	return fmt.Sprintf("%s:%d", f, ps.Line)
}

func allPackages(P *Program) []*packages.Package {
	var out []*packages.Package
	packages.Visit(P.Pkgs, nil, func(p *packages.Package) { out = append(out, p) })
	return out
}
