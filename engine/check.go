package main

import (
	"encoding/json"
	"flag"
	"fmt"
	"os"
	"os/exec"
	"path/filepath"
	"regexp"
	"sort"
	"strconv"
	"strings"
	"time"
)

const verifDir = "/verif"

type KnownFinding struct {
	Property   string `json:"property"`
	Obligation string `json:"obligation"` // obligation group name (regexp allowed when prefixed with ~)
	Witness    string `json:"witness"`    // what fails (input / call site / history)
	Status     string `json:"status"`     // "known" or "fixed"
	Commit     string `json:"commit,omitempty"`
	Replay     string `json:"replay,omitempty"`
	Note       string `json:"note,omitempty"`
}

type ReplaySpec struct {
	Match   string `json:"match"`   // regexp over obligation group name
	Pkg     string `json:"pkg"`     // package dir relative to /repo
	File    string `json:"file"`    // test file under /verif/replay
	Run     string `json:"run"`     // -run regexp
	Tags    string `json:"tags,omitempty"`
}

type group struct {
	Name    string
	Func    string
	Kind    string
	Pos     string
	Obs     []*Ob
	Status  string // discharged / refuted / unknown / timeout / error / missing / unbound
	Solver  string
	TimeS   float64
}

var reInst = regexp.MustCompile(`@\d+$`)

type BoundedSpec struct {
	Property    string   `json:"property"`
	Name        string   `json:"name"`
	Pkg         string   `json:"pkg"`
	File        string   `json:"file"`
	Run         string   `json:"run"`
	Tags        string   `json:"tags"`
	Bound       string   `json:"bound"`
	StandsInFor string   `json:"stands_in_for"`
	QuickEnv    []string `json:"quick_env"`
	ThoroughEnv []string `json:"thorough_env"`
}

func groupName(ob *Ob) string { return reInst.ReplaceAllString(ob.Name, "") }

func loadJSON(path string, v interface{}) error {
	b, err := os.ReadFile(path)
	if err != nil {
		return err
	}
	return json.Unmarshal(b, v)
}

func hasProp(props []string, p string) bool {
	for _, q := range props {
		if q == p {
			return true
		}
	}
	return false
}

func checkMain(args []string) int {
	fs := flag.NewFlagSet("check", flag.ExitOnError)
	tier := fs.String("tier", "quick", "quick|thorough")
	writeLedger := fs.Bool("write-ledger", false, "record the discharged obligation groups of this run in ledger.json")
	fs.Parse(args)
	if fs.NArg() < 1 {
		fmt.Fprintln(os.Stderr, "usage: govc check [--tier quick|thorough] <property>")
		return 2
	}
	if t := os.Getenv("VERIF_TIER"); t != "" && *tier == "quick" {
		*tier = t
	}
	prop := fs.Arg(0)
	seed := 0
	if s := os.Getenv("VERIF_SEED"); s != "" {
		seed, _ = strconv.Atoi(s)
	}
	t0 := time.Now()
	timeout := 10
	if *tier == "thorough" {
		timeout = 60
	}
	outDir := filepath.Join(verifDir, "out", prop)
	evPath := filepath.Join(verifDir, "evidence", prop+".json")
	if sc := os.Getenv("VERIF_SCRATCH"); sc != "" {
		// seeded-change trials only (run beside normal work against a scratch copy of the repository, see seeded/confirm2.sh):
		// replay files and the evidence file of such a run go to the scratch directory. No registered command sets this.
		outDir = filepath.Join(sc, "out", prop)
		evPath = filepath.Join(sc, "evidence", prop+".json")
	}
	os.RemoveAll(outDir)
	os.MkdirAll(outDir, 0755)
	os.MkdirAll(filepath.Dir(evPath), 0755)

	P, err := LoadProgram([]string{"./..."})
	if err != nil {
		fmt.Fprintln(os.Stderr, "govc: cannot load /repo with -tags verif:", err)
		// a tree that does not build cannot be judged
		return 2
	}
	C, err := ParseContracts(P)
	if err != nil {
		fmt.Fprintln(os.Stderr, "govc: contract error:", err)
		return 2
	}
	loadS := time.Since(t0).Seconds()

	var results []*FuncResult
	var assumedContracts []string
	for _, name := range C.Order {
		con := C.Funcs[name]
		if !hasProp(con.Props, prop) && !hasProp(con.Safety, prop) && !hasProp(con.AllocProps, prop) {
			continue
		}
		if con.Assumed {
			assumedContracts = append(assumedContracts, name)
			continue
		}
		fn := P.Lookup(name)
		if fn == nil {
			results = append(results, &FuncResult{Name: name, Contract: con, Err: "function not found in the current tree (contract cannot be bound)"})
			continue
		}
		if con.Inline {
			// loop invariants for a closure that is executed in place inside its parent: verified there, not on its own
			continue
		}
		results = append(results, VerifyFunc(P, C, fn, con))
	}
	for _, lm := range C.Lemmas {
		if hasProp(lm.Props, prop) {
			results = append(results, VerifyLemma(P, C, lm))
		}
	}
	var all []*Ob
	for _, r := range results {
		for _, ob := range r.Obs {
			// obligations owned by other properties (safety side-conditions) are not this check's business
			if hasProp(ob.Props, prop) {
				all = append(all, ob)
			}
		}
	}
	genS := time.Since(t0).Seconds() - loadS
	os.Setenv("VERIF_SOLVER_CACHE", "")
	{
		var knownEarly []KnownFinding
		loadJSON(filepath.Join(verifDir, "known_findings.json"), &knownEarly)
		NoRetry = func(ob *Ob) bool { return matchKnown(knownEarly, prop, groupName(ob)) != nil }
	}
	SolveAll(all, outDir, timeout)
	solveS := time.Since(t0).Seconds() - loadS - genS

	// group
	groups := map[string]*group{}
	var order []string
	for _, r := range results {
		for _, ob := range r.Obs {
			if !hasProp(ob.Props, prop) {
				continue
			}
			gn := groupName(ob)
			g := groups[gn]
			if g == nil {
				g = &group{Name: gn, Func: ob.Func, Kind: ob.Kind, Pos: ob.Pos, Status: "discharged"}
				groups[gn] = g
				order = append(order, gn)
			}
			g.Obs = append(g.Obs, ob)
			g.TimeS += ob.TimeS
			if ob.Status != "discharged" && g.Status == "discharged" {
				g.Status = ob.Status
				g.Pos = ob.Pos
			}
			if g.Solver == "" || ob.Status != "discharged" {
				g.Solver = ob.Solver
			}
		}
	}
	// functions outside the subset / unbound contracts: every ledger group of that function is unbound
	var ledger map[string][]string
	loadJSON(filepath.Join(verifDir, "ledger.json"), &ledger)
	errFuncs := map[string]string{}
	for _, r := range results {
		if r.Err != "" {
			errFuncs[r.Name] = r.Err
		}
	}
	for _, gn := range ledger[prop] {
		fn := gn
		if i := strings.Index(gn, "/"); i >= 0 {
			fn = gn[:i]
		}
		// container/heap.down/post#x : function name itself may contain '/'
		fn = ledgerFunc(gn)
		if k := ledgerKind(gn); k == "nopanic" || k == "overflow" || strings.HasPrefix(k, "pre@") || autoGenerated(gn) {
			// safety side-conditions come and go with harmless edits; their absence is not a finding
			if _, bad := errFuncs[fn]; !bad {
				continue
			}
		}
		if _, ok := groups[gn]; !ok {
			st := "missing"
			if _, bad := errFuncs[fn]; bad {
				st = "unbound"
			}
			groups[gn] = &group{Name: gn, Func: fn, Kind: "ledger", Status: st}
			order = append(order, gn)
		}
	}
	for fn, e := range errFuncs {
		// make sure an engine failure on a function is visible even with an empty ledger
		gn := fn + "/engine"
		groups[gn] = &group{Name: gn, Func: fn, Kind: "engine", Status: "unbound", Pos: e}
		order = append(order, gn)
	}

	var known []KnownFinding
	loadJSON(filepath.Join(verifDir, "known_findings.json"), &known)
	var replays []ReplaySpec
	loadJSON(filepath.Join(verifDir, "replay", "replays.json"), &replays)

	nOb, nDis := 0, 0
	byBackend := map[string]int{}
	vacuous := 0
	var violations, knownHit []string
	var samples []map[string]interface{}
	solverTime := 0.0
	for _, gn := range order {
		g := groups[gn]
		if g.Kind == "cover" {
			if g.Obs[0].Label == "exit" {
				// infeasible individual paths are normal; a function none of whose sampled return paths is satisfiable is vacuous
				all := true
				for _, ob := range g.Obs {
					if ob.Status != "vacuous" {
						all = false
					}
				}
				if all {
					vacuous++
					fmt.Printf("VACUOUS: %s: none of the %d sampled return paths is satisfiable together with the assumptions made along it\n", g.Name, len(g.Obs))
				}
				continue
			}
			for _, ob := range g.Obs {
				if ob.Status == "vacuous" {
					vacuous++
					fmt.Printf("VACUOUS: %s (%s): the assumptions of this function are contradictory\n", ob.Name, ob.Pos)
				}
			}
			continue
		}
		nOb++
		for _, ob := range g.Obs {
			solverTime += ob.TimeS
			if ob.Status == "discharged" {
				byBackend[strings.TrimSuffix(ob.Solver, "(cached)")]++
			}
		}
		if g.Status == "discharged" {
			nDis++
			if len(samples) < 6 && len(g.Obs) > 0 && g.Obs[0].Query != "" {
				samples = append(samples, map[string]interface{}{"obligation": g.Name, "instances": len(g.Obs), "pos": g.Pos,
					"solver": g.Solver, "smt_bytes": len(g.Obs[0].Query)})
			}
			continue
		}
		// not discharged
		if kf := matchKnown(known, prop, g.Name); kf != nil {
			fmt.Printf("KNOWN-FINDING: property=%s %s %s\n", prop, g.Name, kf.Witness)
			knownHit = append(knownHit, g.Name)
			continue
		}
		rp := writeReplay(outDir, prop, g, replays, errFuncs)
		line := fmt.Sprintf("VIOLATION property=%s replay=%s obligation=%s status=%s", prop, rp.path, g.Name, g.Status)
		if !rp.failingInput {
			line += " no-failing-input-found"
		}
		fmt.Println(line)
		violations = append(violations, g.Name)
	}
	// bounded stand-ins (labelled bounded, never counted among the discharged obligations)
	var boundedSpecs []BoundedSpec
	loadJSON(filepath.Join(verifDir, "bounded", "bounded.json"), &boundedSpecs)
	var boundedEv []map[string]interface{}
	for _, bs := range boundedSpecs {
		if bs.Property != prop {
			continue
		}
		env := bs.QuickEnv
		if *tier == "thorough" {
			env = bs.ThoroughEnv
		}
		tb := time.Now()
		res, failed := runInjected(ReplaySpec{Pkg: bs.Pkg, File: bs.File, Run: bs.Run, Tags: bs.Tags}, "bounded", env)
		line := ""
		for _, l := range strings.Split(res.out, "\n") {
			if strings.HasPrefix(strings.TrimSpace(l), "VERIF-BOUNDED ") {
				line = strings.TrimSpace(l)
			}
		}
		rec := map[string]interface{}{"name": bs.Name, "stands_in_for": bs.StandsInFor, "bound": bs.Bound, "cmd": res.cmd, "env": env,
			"result_line": line, "wall_s": round2(time.Since(tb).Seconds()), "passed": !failed && line != ""}
		boundedEv = append(boundedEv, rec)
		if failed || line == "" {
			path := filepath.Join(outDir, "bounded_"+mangle(bs.Name)+".replay.json")
			rec2 := map[string]interface{}{"property": prop, "obligation": "bounded:" + bs.Name, "kind": "bounded", "replay_test": filepath.Join(verifDir, "bounded", bs.File),
				"replay_cmd": res.cmd, "replay_output": headTail(res.out, 4000), "replay_failed_on_real_code": failed}
			b, _ := json.MarshalIndent(rec2, "", " ")
			os.WriteFile(path, b, 0644)
			if kf := matchKnown(known, prop, "bounded:"+bs.Name); kf != nil {
				fmt.Printf("KNOWN-FINDING: property=%s bounded:%s %s\n", prop, bs.Name, kf.Witness)
				knownHit = append(knownHit, "bounded:"+bs.Name)
				continue
			}
			l := fmt.Sprintf("VIOLATION property=%s replay=%s obligation=bounded:%s status=%s", prop, path, bs.Name, map[bool]string{true: "failed", false: "did-not-run"}[failed])
			if !failed {
				l += " no-failing-input-found"
			}
			fmt.Println(l)
			violations = append(violations, "bounded:"+bs.Name)
		} else {
			fmt.Printf("bounded: %s: %s\n", bs.Name, line)
		}
	}
	sort.Strings(violations)

	// evidence
	var funcs, inl, assumes, outside []string
	inlSet, asSet := map[string]bool{}, map[string]bool{}
	for _, r := range results {
		funcs = append(funcs, r.Name)
		if r.Err != "" {
			outside = append(outside, r.Name+": "+truncate(r.Err, 200))
		}
		for _, i := range r.Inlined {
			inlSet[i] = true
		}
		for _, a := range r.Assumed {
			asSet[a] = true
		}
		if r.Contract != nil {
			for _, t := range r.Contract.Trust {
				asSet["trust "+t+" ("+r.Name+")"] = true
			}
		}
	}
	inl = sortedKeys(inlSet)
	assumes = sortedKeys(asSet)
	for _, a := range assumedContracts {
		assumes = append(assumes, "assumed contract (dependency, body not verified): "+a)
	}
	assumes = append(assumes,
		"sequential semantics: sync.Mutex/RWMutex/WaitGroup are no-ops and sync/atomic operations are plain loads/stores",
		"termination is not proved (partial correctness)",
		"go/packages + go/ssa (x/tools v0.29.0) produce a faithful SSA of the source; the generator's symbolic semantics of SSA is trusted",
		"integers: int-mode functions use mathematical integers with wrap-around for unsigned operations and an overflow obligation on every signed operation; bv-mode functions use exact 64/32/16/8-bit vectors",
		"floats are an uninterpreted sort; only the strict-weak-order axioms on non-NaN values are assumed where `trust floatorder` is declared",
		"slices: offset+capacity <= 2^48 (amd64 address space)")
	for _, be := range boundedEv {
		assumes = append(assumes, fmt.Sprintf("BOUNDED stand-in, not a proof and not counted in obligations/discharged: %v (%v) for %v", be["name"], be["bound"], be["stands_in_for"]))
	}
	for _, r := range results {
		if r.Contract != nil && len(r.Contract.Safety) > 0 && !hasProp(r.Contract.Safety, prop) {
			assumes = append(assumes, fmt.Sprintf("run-time panics / signed overflow / callee preconditions inside %s are not obligations of this property (owner: %s)", r.Name, strings.Join(r.Contract.Safety, " ")))
		}
	}
	if len(samples) == 0 {
		samples = append(samples, map[string]interface{}{"note": "no discharged obligation to sample"})
	}
	// the slowest discharged obligations: anything near the timeout is a candidate for a spurious alarm on a loaded machine
	type slowOb struct {
		Name   string  `json:"obligation"`
		TimeS  float64 `json:"time_s"`
		Solver string  `json:"solver"`
	}
	var slow []slowOb
	for _, ob := range all {
		if ob.Status == "discharged" && ob.Kind != "cover" {
			slow = append(slow, slowOb{ob.Name, round2(ob.TimeS), ob.Solver})
		}
	}
	sort.Slice(slow, func(i, j int) bool { return slow[i].TimeS > slow[j].TimeS })
	if len(slow) > 8 {
		slow = slow[:8]
	}
	for _, so := range slow {
		if so.TimeS > float64(timeout)/4 {
			fmt.Printf("SLOW: %s discharged in %.1fs of %ds (%s)\n", so.Name, so.TimeS, timeout, so.Solver)
		}
	}
	ev := map[string]interface{}{
		"property_id": prop,
		"tier":        *tier,
		"seed":        seed,
		"level":       "proof",
		"coverage": map[string]interface{}{
			// obligations = the obligation groups this proof-level claim covers; groups that fail and are listed in
			// known_findings.json are findings, reported separately below, and are not part of the proved set
			"obligations":  nOb - len(knownHit),
			"discharged":   nDis,
			"obligations_including_known_findings": nOb,
			"checker_cmd":  fmt.Sprintf("/verif/bin/govc check --tier %s %s  (z3 4.8.12, z3 5.1.0, cvc5 1.0 raced per obligation, %ds each)", *tier, prop, timeout),
			"trusted_base": []string{"z3 4.8.12 / z3 5.1.0 / cvc5 1.0.x answer unsat soundly", "golang.org/x/tools v0.29.0 go/ssa", "govc symbolic semantics (this repository, /verif/engine)"},
			"samples":      samples,
			"functions_under_contract": funcs,
			"inlined_functions_verified_in_place": inl,
			"by_backend":   byBackend,
			"solver_time_s": round2(solverTime),
			"load_s":       round2(loadS),
			"generate_s":   round2(genS),
			"solve_wall_s": round2(solveS),
			"instances":    len(all),
			"known_findings_hit": knownHit,
			"violations":   violations,
			"outside_subset": outside,
			"cover_checks_vacuous": vacuous,
			"slowest_discharged": slow,
			"slowest_instances": slowest(all, 8),
			"bounded":      boundedEv,
		},
		"assumptions": assumes,
		"wall_s":      round2(time.Since(t0).Seconds()),
		"violations":  len(violations),
	}
	b, _ := json.MarshalIndent(ev, "", " ")
	os.WriteFile(evPath, b, 0644)

	fmt.Printf("govc: %s tier=%s: %d functions, %d obligations (%d instances), discharged %d, known findings %d, violations %d; load %.1fs gen %.1fs solve %.1fs\n",
		prop, *tier, len(results), nOb, len(all), nDis, len(knownHit), len(violations), loadS, genS, solveS)
	fmt.Printf("evidence: %s\n", evPath)

	if *writeLedger {
		if ledger == nil {
			ledger = map[string][]string{}
		}
		var names []string
		for _, gn := range order {
			g := groups[gn]
			if g.Kind != "cover" && g.Kind != "ledger" && g.Kind != "engine" && g.Status == "discharged" {
				names = append(names, gn)
			}
		}
		sort.Strings(names)
		ledger[prop] = names
		lb, _ := json.MarshalIndent(ledger, "", " ")
		os.WriteFile(filepath.Join(verifDir, "ledger.json"), lb, 0644)
	}
	if nOb == 0 {
		fmt.Println("govc: no obligations generated for", prop, "- refusing to report success")
		return 2
	}
	if vacuous > 0 {
		return 2
	}
	if len(violations) > 0 {
		return 1
	}
	return 0
}

// autoGenerated: obligations the generator derives from the shape of the code (automatic loop frames, range bounds) rather than
// from a clause of the contract; they appear and disappear with harmless restructuring, so their absence is not a finding.
func autoGenerated(gn string) bool {
	i := strings.LastIndex(gn, "/")
	if i < 0 {
		return false
	}
	k := gn[i+1:]
	return strings.HasPrefix(k, "frame#") || k == "lossless" || strings.HasPrefix(k, "alloc#") || (strings.HasPrefix(k, "inv#loop") && strings.Contains(k, ".autorange."))
}

// slowest lists the obligation instances that took longest (stability watch: anything near the timeout is a future false alarm)
func slowest(obs []*Ob, n int) []map[string]interface{} {
	var cp []*Ob
	for _, o := range obs {
		if o.Kind != "cover" {
			cp = append(cp, o)
		}
	}
	sort.Slice(cp, func(i, j int) bool { return cp[i].TimeS > cp[j].TimeS })
	out := []map[string]interface{}{}
	for i := 0; i < len(cp) && i < n; i++ {
		out = append(out, map[string]interface{}{"instance": cp[i].Name, "solver": cp[i].Solver, "time_s": round2(cp[i].TimeS)})
	}
	return out
}

func headTail(s string, n int) string {
	if len(s) <= 2*n {
		return s
	}
	return s[:n] + "\n…\n" + s[len(s)-n:]
}

func round2(f float64) float64 { return float64(int(f*100+0.5)) / 100 }

func ledgerFunc(gn string) string {
	// group name = <func>/<kind>[#label]; func may contain '/' (import paths) so cut at the last '/'
	if i := strings.LastIndex(gn, "/"); i >= 0 {
		return gn[:i]
	}
	return gn
}

func matchKnown(known []KnownFinding, prop, name string) *KnownFinding {
	for i := range known {
		k := &known[i]
		if k.Property != prop || k.Status != "known" {
			continue
		}
		if strings.HasPrefix(k.Obligation, "~") {
			if ok, _ := regexp.MatchString(k.Obligation[1:], name); ok {
				return k
			}
		} else if k.Obligation == name {
			return k
		}
	}
	return nil
}

type replayOut struct {
	path         string
	failingInput bool
}

func writeReplay(outDir, prop string, g *group, replays []ReplaySpec, errFuncs map[string]string) replayOut {
	base := mangle(strings.ReplaceAll(g.Name, "/", "_"))
	path := filepath.Join(outDir, base+".replay.json")
	rec := map[string]interface{}{"property": prop, "obligation": g.Name, "function": g.Func, "kind": g.Kind, "status": g.Status, "pos": g.Pos}
	if e, ok := errFuncs[g.Func]; ok {
		rec["engine"] = e
	}
	var inst []map[string]interface{}
	for _, ob := range g.Obs {
		if ob.Status == "discharged" {
			continue
		}
		m := map[string]interface{}{"instance": ob.Name, "status": ob.Status, "solver": ob.Solver, "pos": ob.Pos, "path": ob.Path, "detail": ob.Detail}
		if ob.Query != "" {
			qf := filepath.Join(outDir, mangle(strings.ReplaceAll(ob.Name, "/", "_"))+".smt2")
			m["smt_file"] = qf
			if ob.Status == "refuted" {
				m["model"] = getModel(ob.Query, outDir)
			}
		}
		inst = append(inst, m)
		if len(inst) >= 4 {
			break
		}
	}
	rec["failed_instances"] = inst
	out := replayOut{path: path}
	for _, rs := range replays {
		ok, _ := regexp.MatchString(rs.Match, g.Name)
		if !ok {
			continue
		}
		res, failed := runReplay(rs)
		rec["replay_test"] = filepath.Join(verifDir, "replay", rs.File)
		rec["replay_cmd"] = res.cmd
		rec["replay_output"] = truncate(res.out, 4000)
		rec["replay_failed_on_real_code"] = failed
		if failed {
			out.failingInput = true
		}
		break
	}
	b, _ := json.MarshalIndent(rec, "", " ")
	os.WriteFile(path, b, 0644)
	return out
}

type replayRes struct {
	cmd string
	out string
}

// runReplay injects an in-package test with -overlay (nothing is written to /repo) and runs it.
func runReplay(rs ReplaySpec) (replayRes, bool) {
	return runInjected(rs, "replay", nil)
}

// runInjected injects an in-package test file from /verif/<sub> with -overlay (nothing is written to /repo) and runs it.
func runInjected(rs ReplaySpec, sub string, env []string) (replayRes, bool) {
	tmp, err := os.MkdirTemp("", "govc-replay")
	if err != nil {
		return replayRes{out: err.Error()}, false
	}
	defer os.RemoveAll(tmp)
	ov := map[string]map[string]string{"Replace": {
		filepath.Join(repoDir(), rs.Pkg, "zz_verif_"+sub+"_test.go"): filepath.Join(verifDir, sub, rs.File)}}
	ob, _ := json.Marshal(ov)
	ovf := filepath.Join(tmp, "ov.json")
	os.WriteFile(ovf, ob, 0644)
	to := "120s"
	if sub == "bounded" {
		to = "1500s"
	}
	args := []string{"test", "-overlay", ovf, "-vet=off", "-count=1", "-timeout", to, "-run", rs.Run}
	if sub == "bounded" {
		args = append(args, "-v")
	}
	if rs.Tags != "" {
		args = append(args, "-tags", rs.Tags)
	}
	args = append(args, "./"+rs.Pkg)
	cmd := exec.Command("go", args...)
	if sub == "bounded" {
		// address-space cap: a Load that sizes allocations from numbers it read dies quickly instead of eating the machine
		cmd = exec.Command("sh", append([]string{"-c", "ulimit -v 16000000; exec go \"$@\"", "go"}, args...)...)
	}
	cmd.Dir = repoDir()
	cmd.Env = append(os.Environ(), "GOFLAGS=-mod=mod", "GOPROXY=off", "GOSUMDB=off", "GOTOOLCHAIN=local", "GOCACHE="+goCache())
	cmd.Env = append(cmd.Env, env...)
	outb, err := cmd.CombinedOutput()
	res := replayRes{cmd: "go " + strings.Join(args, " "), out: string(outb)}
	failed := err != nil && (strings.Contains(string(outb), "--- FAIL") || strings.Contains(string(outb), "panic:") || strings.Contains(string(outb), "fatal error:"))
	if err != nil && !failed {
		res.out += "\n(go test did not run to completion: " + err.Error() + ")"
	}
	return res, failed
}

func goCache() string {
	if c := os.Getenv("GOCACHE"); c != "" {
		return c
	}
	h, _ := os.UserHomeDir()
	return filepath.Join(h, ".cache", "go-build")
}

// getModel asks z3 for a model of a refuted obligation (candidate counterexample).
func getModel(query, outDir string) string {
	q := strings.Replace(query, "(check-sat)", "(check-sat)\n(get-model)", 1)
	f := filepath.Join(outDir, "model_"+hashStr(query)+".smt2")
	os.WriteFile(f, []byte(q), 0644)
	defer os.Remove(f)
	out, _ := exec.Command("z3-new", "-T:10", f).CombinedOutput()
	s := string(out)
	// keep only scalar definitions of parameters (p.*) and a bounded amount of text
	var keep []string
	lines := strings.Split(s, "\n")
	for i := 0; i < len(lines); i++ {
		l := strings.TrimSpace(lines[i])
		if strings.HasPrefix(l, "(define-fun p.") || strings.HasPrefix(l, "(define-fun |p.") {
			v := ""
			if i+1 < len(lines) {
				v = strings.TrimSpace(lines[i+1])
			}
			keep = append(keep, l+" "+v)
		}
	}
	if len(keep) == 0 {
		return truncate(s, 1500)
	}
	return truncate(strings.Join(keep, "\n"), 3000)
}

func ledgerKind(gn string) string {
	k := gn[strings.LastIndex(gn, "/")+1:]
	if i := strings.Index(k, "#"); i >= 0 {
		k = k[:i]
	}
	return k
}
