package main

func checkMain(args []string) int { return 2 }
