package main

import (
	"fmt"
	"regexp"
	"go/token"
	"go/types"
	"strconv"
	"strings"
)

type Clause struct {
	Label string
	Props []string // restrict to these properties (empty = all props of the function)
	E     Expr
	Src   string
	Pos   string
	Note  string // the whole text between the brackets (labels of assumptions carry their justification there)
}

type ModItem struct {
	Kind string // "field" (x.f pointwise), "tfield" (T.f whole), "mem" (mem(s) pointwise), "tmem" (mem[T] whole), "map" (map(m)), "tmap" (maps[K]V whole), "cell" (cell(p)), "tcell", "new" (new T), "all"
	X    Expr   // object expression for pointwise kinds
	T    string // type string for whole kinds
	F    string // field name (possibly dotted path)
	Src  string
}

type LoopSpec struct {
	Ordinal  int
	Invs     []Clause
	Modifies []ModItem // optional refinement
	HasMod   bool
}

type Hook struct {
	When     string // "call", "recv", "send", "go", "select"
	Pattern  string
	Requires []Clause
	Assumes  []Clause
	Sets     []GhostSet
	Pos      string
	CallInv  []Clause // invariant maintained by every call of the closure passed to a `repeats` callee
	Scope    []string // the hook applies only at sites where these local names are in scope (//@ scope a b)
}

type GhostSet struct {
	Name string
	E    Expr
}

type GhostVar struct {
	Name string
	Type string
	Init Expr
}

type Contract struct {
	Name     string
	PkgPath  string // package whose contract file declared it (for name resolution)
	Props    []string
	Mode     Mode
	Assumed  bool // dependency / trusted: body not verified
	Inline   bool
	Pure     bool
	Requires []Clause
	Ensures  []Clause
	Modifies []ModItem
	HasMod   bool
	Loops    map[int]*LoopSpec
	Ghosts   []GhostVar
	Hooks    []Hook
	Trust    []string // free-text trusted statements ("nooverflow", ...)
	Pos      string
	NoPanicOnly bool
	Dyn      map[string][]string // param name -> possible dynamic types (closed world for interface params)
	Uses     []LemmaUse
	WritesVia []WritesVia
	NoAlloc  bool      // the function allocates nothing (checked on the callee, used at call sites: allocation counter unchanged)
	EntryAssumes []Clause // assumptions made at function entry (not obligations of callers)
	AllocProps []string // properties that own the allocation-size obligations (every make sized by a non-constant is bounded by 65536*memcap); empty = not generated
	Safety   []string  // properties that own this function's safety side-conditions (nopanic/overflow/pre@); empty = all props
	Functional string  // name of the ufunc this function's single result equals (deterministic function of its arguments)
	NoClose  []string  // channel variables that neither this function nor any of its function literals may close
	CallsOnce string   // name of a func-typed parameter that the (assumed) callee calls exactly once, synchronously
	Repeats   string   // name of a func-typed parameter that the (assumed) callee calls any number of times
	RepeatReq []Clause // what the callee guarantees about the arguments of each such call ($a0, $a1, ...)
}

// WritesVia: heap arrays whose name starts with Prefix may only be written inside the listed functions.
type WritesVia struct {
	Prefix string
	Funcs  []string
	Pos    string
}

type LemmaUse struct {
	Name string
	Args []Expr
	Old  bool
	Pos  string
}

type SpecFn struct {
	Name    string
	Params  []QVar
	Ret     string
	Body    Expr
	PkgPath string
	Uninterp bool
}

type Lemma struct {
	Name     string
	PkgPath  string
	Props    []string
	Params   []QVar
	Requires []Clause
	Ensures  []Clause
	Pos      string
	Induction string
	Trust    []string
	Mode     Mode
}

type IfaceDecl struct {
	Iface string
	Impls []string
}

// FrameSet: a named list of "modifies * except" items, written once (//@ frameset name = item; item; ...) in the package whose
// scope can name the types, and usable from every package's contracts as "set name".
type FrameSet struct {
	PkgPath string
	Items   []string
}

type Contracts struct {
	FrameSets map[string]*FrameSet
	Funcs  map[string]*Contract
	Specs  map[string]*SpecFn
	Lemmas []*Lemma
	Ifaces map[string][]string // interface type string -> implementing type strings
	// file position used for type resolution per package
	EvalPos map[string]token.Pos
	Pkgs    map[string]*types.Package
	Order   []string
}

func splitLabel(s string) (label string, props []string, rest string) {
	s = strings.TrimSpace(s)
	if strings.HasPrefix(s, "[") {
		if i := strings.Index(s, "]"); i > 0 {
			inner := strings.Fields(s[1:i])
			rest = strings.TrimSpace(s[i+1:])
			for _, w := range inner {
				if len(w) >= 3 && w[0] == 'C' && w[1] >= '0' && w[1] <= '9' {
					props = append(props, w)
				} else if label == "" {
					label = w
				}
			}
			return
		}
	}
	return "", nil, s
}

func parseClause(text, pos string) (Clause, error) {
	label, props, rest := splitLabel(text)
	e, err := ParseExpr(rest)
	if err != nil {
		return Clause{}, fmt.Errorf("%s: %v", pos, err)
	}
	note := ""
	if t := strings.TrimSpace(text); strings.HasPrefix(t, "[") {
		if i := strings.Index(t, "]"); i > 0 {
			note = t[1:i]
		}
	}
	return Clause{Label: label, Props: props, E: e, Src: rest, Pos: pos, Note: note}, nil
}

func splitTop(s string, sep rune) []string {
	var out []string
	depth := 0
	start := 0
	for i, c := range s {
		switch c {
		case '(', '[':
			depth++
		case ')', ']':
			depth--
		}
		if c == sep && depth == 0 {
			out = append(out, strings.TrimSpace(s[start:i]))
			start = i + 1
		}
	}
	if strings.TrimSpace(s[start:]) != "" {
		out = append(out, strings.TrimSpace(s[start:]))
	}
	return out
}

func parseModifies(text, pos string) ([]ModItem, error) {
	var out []ModItem
	for _, it := range splitTop(text, ',') {
		m := ModItem{Src: it}
		switch {
		case it == "nothing":
			continue
		case strings.HasPrefix(it, "* except "):
			// everything may change except the listed whole field families: "* except type T.f; type U.g"
			m.Kind = "allexcept"
			m.T = strings.TrimSpace(it[len("* except "):])
		case it == "*":
			m.Kind = "all"
		case strings.HasPrefix(it, "new "):
			m.Kind = "new"
			m.T = strings.TrimSpace(it[4:])
		case strings.HasPrefix(it, "mem(") && strings.HasSuffix(it, ")"):
			e, err := ParseExpr(it[4 : len(it)-1])
			if err != nil {
				return nil, fmt.Errorf("%s: %v", pos, err)
			}
			m.Kind, m.X = "mem", e
		case strings.HasPrefix(it, "mem[") && strings.HasSuffix(it, "]"):
			m.Kind, m.T = "tmem", it[4:len(it)-1]
		case strings.HasPrefix(it, "map(") && strings.HasSuffix(it, ")"):
			e, err := ParseExpr(it[4 : len(it)-1])
			if err != nil {
				return nil, fmt.Errorf("%s: %v", pos, err)
			}
			m.Kind, m.X = "map", e
		case strings.HasPrefix(it, "maps[") && strings.HasSuffix(it, "]"):
			m.Kind, m.T = "tmap", it[5:len(it)-1]
		case strings.HasPrefix(it, "fields(") && strings.HasSuffix(it, ")"):
			e, err := ParseExpr(it[7 : len(it)-1])
			if err != nil {
				return nil, fmt.Errorf("%s: %v", pos, err)
			}
			m.Kind, m.X = "fields", e
		case strings.HasPrefix(it, "cell(") && strings.HasSuffix(it, ")"):
			e, err := ParseExpr(it[5 : len(it)-1])
			if err != nil {
				return nil, fmt.Errorf("%s: %v", pos, err)
			}
			m.Kind, m.X = "cell", e
		case strings.HasPrefix(it, "cells[") && strings.HasSuffix(it, "]"):
			m.Kind, m.T = "tcell", it[6:len(it)-1]
		case strings.HasPrefix(it, "type "):
			// type T.f : whole field array
			rest := strings.TrimSpace(it[5:])
			i := strings.LastIndex(rest, ".")
			if i < 0 {
				return nil, fmt.Errorf("%s: bad modifies item %q", pos, it)
			}
			m.Kind, m.T, m.F = "tfield", rest[:i], rest[i+1:]
		default:
			// x.f pointwise: last selector is the field
			e, err := ParseExpr(it)
			if err != nil {
				return nil, fmt.Errorf("%s: %v", pos, err)
			}
			s, ok := e.(ESel)
			if !ok {
				return nil, fmt.Errorf("%s: modifies item %q must be x.f, mem(s), map(m), cell(p), type T.f, new T or *", pos, it)
			}
			m.Kind, m.X, m.F = "field", s.X, s.Name
		}
		out = append(out, m)
	}
	return out, nil
}

func ParseContracts(P *Program) (*Contracts, error) {
	C := &Contracts{Funcs: map[string]*Contract{}, Specs: map[string]*SpecFn{}, Ifaces: map[string][]string{},
		EvalPos: map[string]token.Pos{}, Pkgs: map[string]*types.Package{}}
	for _, pkgPath := range sortedKeys(P.ContractText) {
		lines := P.ContractText[pkgPath]
		// locate eval position: end of contracts file
		for _, p := range P.Pkgs {
			_ = p
		}
		var cur *Contract
		var curLoop *LoopSpec
		var curHook *Hook
		var curLemma *Lemma
		// join continuation lines ("| ...")
		var joined []ContractLine
		for _, l := range lines {
			if strings.HasPrefix(l.Text, "|") && len(joined) > 0 {
				joined[len(joined)-1].Text += " " + strings.TrimSpace(l.Text[1:])
				continue
			}
			joined = append(joined, l)
		}
		for _, l := range joined {
			text := l.Text
			if text == "" || strings.HasPrefix(text, "#") {
				continue
			}
			pos := fmt.Sprintf("%s:%d", strings.TrimPrefix(l.File, repoDir()+"/"), l.Line)
			kw := text
			rest := ""
			if i := strings.IndexAny(text, " \t"); i > 0 {
				kw, rest = text[:i], strings.TrimSpace(text[i+1:])
			}
			switch kw {
			case "func":
				name := rest
				if _, dup := C.Funcs[name]; dup {
					return nil, fmt.Errorf("%s: duplicate contract for %s", pos, name)
				}
				cur = &Contract{Name: name, PkgPath: pkgPath, Loops: map[int]*LoopSpec{}, Pos: pos, Dyn: map[string][]string{}}
				C.Funcs[name] = cur
				C.Order = append(C.Order, name)
				curLoop, curHook, curLemma = nil, nil, nil
			case "frameset":
				i := strings.Index(rest, "=")
				if i < 0 {
					return nil, fmt.Errorf("%s: bad frameset (want: frameset name = item; item)", pos)
				}
				fs := &FrameSet{PkgPath: pkgPath}
				for _, it := range strings.Split(rest[i+1:], ";") {
					if it = strings.TrimSpace(it); it != "" {
						fs.Items = append(fs.Items, it)
					}
				}
				if C.FrameSets == nil {
					C.FrameSets = map[string]*FrameSet{}
				}
				C.FrameSets[strings.TrimSpace(rest[:i])] = fs
			case "lemma":
				// lemma name(p T, q U)
				i := strings.Index(rest, "(")
				j := strings.LastIndex(rest, ")")
				if i < 0 || j < i {
					return nil, fmt.Errorf("%s: bad lemma header", pos)
				}
				lm := &Lemma{Name: strings.TrimSpace(rest[:i]), PkgPath: pkgPath, Pos: pos}
				for _, p := range splitTop(rest[i+1:j], ',') {
					f := strings.SplitN(p, " ", 2)
					if len(f) != 2 {
						return nil, fmt.Errorf("%s: bad lemma param %q", pos, p)
					}
					lm.Params = append(lm.Params, QVar{f[0], strings.TrimSpace(f[1])})
				}
				C.Lemmas = append(C.Lemmas, lm)
				curLemma, cur, curLoop, curHook = lm, nil, nil, nil
			case "spec", "ufunc":
				// spec name(p T, q U) R = expr      |  ufunc name(T, U) R
				i := strings.Index(rest, "(")
				if i < 0 {
					return nil, fmt.Errorf("%s: bad spec header", pos)
				}
				depth, j := 0, -1
				for k := i; k < len(rest); k++ {
					if rest[k] == '(' {
						depth++
					} else if rest[k] == ')' {
						depth--
						if depth == 0 {
							j = k
							break
						}
					}
				}
				if j < 0 {
					return nil, fmt.Errorf("%s: bad spec header", pos)
				}
				sf := &SpecFn{Name: strings.TrimSpace(rest[:i]), PkgPath: pkgPath, Uninterp: kw == "ufunc"}
				for n, p := range splitTop(rest[i+1:j], ',') {
					if kw == "ufunc" {
						sf.Params = append(sf.Params, QVar{fmt.Sprintf("a%d", n), p})
						continue
					}
					f := strings.SplitN(p, " ", 2)
					if len(f) != 2 {
						return nil, fmt.Errorf("%s: bad spec param %q", pos, p)
					}
					sf.Params = append(sf.Params, QVar{f[0], strings.TrimSpace(f[1])})
				}
				tail := strings.TrimSpace(rest[j+1:])
				if kw == "ufunc" {
					sf.Ret = tail
				} else {
					k := strings.Index(tail, "=")
					if k < 0 {
						return nil, fmt.Errorf("%s: spec needs '= expr'", pos)
					}
					sf.Ret = strings.TrimSpace(tail[:k])
					e, err := ParseExpr(tail[k+1:])
					if err != nil {
						return nil, fmt.Errorf("%s: %v", pos, err)
					}
					sf.Body = e
				}
				if _, dup := C.Specs[sf.Name]; dup {
					return nil, fmt.Errorf("%s: duplicate spec %s", pos, sf.Name)
				}
				C.Specs[sf.Name] = sf
			case "iface":
				// iface T in A, B
				parts := strings.SplitN(rest, " in ", 2)
				if len(parts) != 2 {
					return nil, fmt.Errorf("%s: bad iface decl", pos)
				}
				C.Ifaces[strings.TrimSpace(parts[0])] = splitTop(parts[1], ',')
			case "props":
				if curLemma != nil {
					curLemma.Props = strings.Fields(rest)
				} else if cur != nil {
					cur.Props = strings.Fields(rest)
				}
			case "arith":
				if cur == nil && curLemma != nil {
					if rest == "bv" {
						curLemma.Mode = ModeBV
					}
					continue
				}
				if cur == nil {
					return nil, fmt.Errorf("%s: arith outside func", pos)
				}
				if rest == "bv" {
					cur.Mode = ModeBV
				} else {
					cur.Mode = ModeInt
				}
			case "assume":
				if curHook != nil && rest != "" {
					c, err := parseClause(rest, pos)
					if err != nil {
						return nil, err
					}
					curHook.Assumes = append(curHook.Assumes, c)
				} else if cur != nil && rest != "" {
					// assume [label] expr at function level: an assumption made at entry (listed in the evidence), e.g. the
					// interpretation a client gives to an uninterpreted predicate of a library contract
					c, err := parseClause(rest, pos)
					if err != nil {
						return nil, err
					}
					cur.EntryAssumes = append(cur.EntryAssumes, c)
				} else if cur != nil {
					cur.Assumed = true
				}
			case "inline":
				cur.Inline = true
			case "pure":
				cur.Pure = true
			case "nopanic-only":
				cur.NoPanicOnly = true
			case "trust":
				if curLemma != nil {
					curLemma.Trust = append(curLemma.Trust, rest)
				} else {
					cur.Trust = append(cur.Trust, rest)
				}
			case "noalloc":
				cur.NoAlloc = true
			case "safety":
				cur.Safety = strings.Fields(rest)
			case "allocbound":
				cur.AllocProps = strings.Fields(rest)
			case "functional":
				cur.Functional = strings.TrimSpace(rest)
			case "noclose":
				cur.NoClose = append(cur.NoClose, strings.Fields(rest)...)
			case "callsonce":
				cur.CallsOnce = strings.TrimSpace(rest)
			case "repeats":
				// repeats <param> with <expr over $a0..>
				parts := strings.SplitN(rest, " with ", 2)
				cur.Repeats = strings.TrimSpace(parts[0])
				if len(parts) == 2 {
					c, err := parseClause(parts[1], pos)
					if err != nil {
						return nil, err
					}
					cur.RepeatReq = append(cur.RepeatReq, c)
				}
			case "callinv":
				if curHook == nil {
					return nil, fmt.Errorf("%s: callinv outside hook", pos)
				}
				c, err := parseClause(rest, pos)
				if err != nil {
					return nil, err
				}
				curHook.CallInv = append(curHook.CallInv, c)
			case "writesvia":
				f := strings.Fields(rest)
				if len(f) < 2 {
					return nil, fmt.Errorf("%s: writesvia <array-prefix> <func>...", pos)
				}
				cur.WritesVia = append(cur.WritesVia, WritesVia{Prefix: f[0], Funcs: f[1:], Pos: pos})
			case "induction":
				if curLemma == nil {
					return nil, fmt.Errorf("%s: induction outside lemma", pos)
				}
				curLemma.Induction = rest
			case "uselemma":
				// uselemma [old] name(args)
				u := LemmaUse{Pos: pos}
				r := rest
				if strings.HasPrefix(r, "old ") {
					u.Old = true
					r = strings.TrimSpace(r[4:])
				}
				e, err := ParseExpr(r)
				if err != nil {
					return nil, fmt.Errorf("%s: %v", pos, err)
				}
				c, ok := e.(ECall)
				if !ok {
					return nil, fmt.Errorf("%s: uselemma name(args)", pos)
				}
				u.Name, u.Args = c.Fn, c.Args
				cur.Uses = append(cur.Uses, u)
			case "dyn":
				// dyn h in *minPriorityQueue, *maxPriorityQueue
				parts := strings.SplitN(rest, " in ", 2)
				if len(parts) != 2 {
					return nil, fmt.Errorf("%s: bad dyn decl", pos)
				}
				cur.Dyn[strings.TrimSpace(parts[0])] = splitTop(parts[1], ',')
			case "requires":
				c, err := parseClause(rest, pos)
				if err != nil {
					return nil, err
				}
				if curHook != nil {
					curHook.Requires = append(curHook.Requires, c)
				} else if curLemma != nil {
					curLemma.Requires = append(curLemma.Requires, c)
				} else if cur != nil {
					cur.Requires = append(cur.Requires, c)
				}
			case "ensures":
				c, err := parseClause(rest, pos)
				if err != nil {
					return nil, err
				}
				if curLemma != nil {
					curLemma.Ensures = append(curLemma.Ensures, c)
				} else if cur != nil {
					cur.Ensures = append(cur.Ensures, c)
				}
			case "modifies":
				items, err := parseModifies(rest, pos)
				if err != nil {
					return nil, err
				}
				if curLoop != nil {
					curLoop.Modifies = append(curLoop.Modifies, items...)
					curLoop.HasMod = true
				} else {
					cur.Modifies = append(cur.Modifies, items...)
					cur.HasMod = true
				}
			case "loop":
				n, err := strconv.Atoi(strings.Fields(rest)[0])
				if err != nil {
					return nil, fmt.Errorf("%s: loop needs ordinal", pos)
				}
				curLoop = &LoopSpec{Ordinal: n}
				cur.Loops[n] = curLoop
				curHook = nil
			case "invariant":
				if curLoop == nil {
					return nil, fmt.Errorf("%s: invariant outside loop", pos)
				}
				c, err := parseClause(rest, pos)
				if err != nil {
					return nil, err
				}
				curLoop.Invs = append(curLoop.Invs, c)
			case "ghost":
				// ghost name type = expr
				k := strings.Index(rest, "=")
				if k < 0 {
					return nil, fmt.Errorf("%s: ghost needs initial value", pos)
				}
				f := strings.Fields(rest[:k])
				if len(f) < 2 {
					return nil, fmt.Errorf("%s: ghost name type = expr", pos)
				}
				// the type may contain blanks (<-chan struct{})
				f = []string{f[0], strings.Join(f[1:], " ")}
				e, err := ParseExpr(rest[k+1:])
				if err != nil {
					return nil, fmt.Errorf("%s: %v", pos, err)
				}
				cur.Ghosts = append(cur.Ghosts, GhostVar{f[0], f[1], e})
			case "at":
				// at call <pattern>  | at recv <pattern> ...
				f := strings.Fields(rest)
				if len(f) < 2 {
					return nil, fmt.Errorf("%s: at <when> <pattern>", pos)
				}
				cur.Hooks = append(cur.Hooks, Hook{When: f[0], Pattern: strings.Join(f[1:], " "), Pos: pos})
				curHook = &cur.Hooks[len(cur.Hooks)-1]
				curLoop = nil
			case "scope":
				if curHook == nil {
					return nil, fmt.Errorf("%s: scope outside hook", pos)
				}
				curHook.Scope = append(curHook.Scope, strings.Fields(rest)...)
			case "set":
				if curHook == nil {
					return nil, fmt.Errorf("%s: set outside hook", pos)
				}
				k := strings.Index(rest, "=")
				if k < 0 {
					return nil, fmt.Errorf("%s: set g = expr", pos)
				}
				e, err := ParseExpr(rest[k+1:])
				if err != nil {
					return nil, fmt.Errorf("%s: %v", pos, err)
				}
				curHook.Sets = append(curHook.Sets, GhostSet{strings.TrimSpace(rest[:k]), e})
			case "end":
				curHook = nil
				curLoop = nil
			default:
				return nil, fmt.Errorf("%s: unknown contract keyword %q", pos, kw)
			}
		}
	}
	// eval positions
	for _, p := range allPackages(P) {
		C.Pkgs[p.PkgPath] = p.Types
		for _, f := range p.Syntax {
			fname := P.Fset.Position(f.Pos()).Filename
			if strings.HasSuffix(fname, "contracts_verif.go") {
				C.EvalPos[p.PkgPath] = f.End() - 1
			}
		}
	}
	return C, nil
}

// ResolveType evaluates a Go type expression in the file scope of pkg's contract file.
func (C *Contracts) ResolveType(P *Program, pkgPath, ty string) (types.Type, error) {
	switch ty {
	case "int":
		return types.Typ[types.Int], nil
	case "bool":
		return types.Typ[types.Bool], nil
	case "uint64":
		return types.Typ[types.Uint64], nil
	case "string":
		return types.Typ[types.String], nil
	case "float32":
		return types.Typ[types.Float32], nil
	}
	// unexported names of other repository packages: [*|[]]pkg.name
	if m := reQualType.FindStringSubmatch(ty); m != nil {
		for path, p := range C.Pkgs {
			if p.Name() == m[2] && strings.HasPrefix(path, repoModule) {
				if obj := p.Scope().Lookup(m[3]); obj != nil {
					if tn, ok := obj.(*types.TypeName); ok && !tn.Exported() {
						t := tn.Type()
						pre := m[1]
						for len(pre) > 0 {
							if strings.HasSuffix(pre, "*") {
								t = types.NewPointer(t)
								pre = pre[:len(pre)-1]
							} else if strings.HasSuffix(pre, "[]") {
								t = types.NewSlice(t)
								pre = pre[:len(pre)-2]
							} else {
								break
							}
						}
						return t, nil
					}
				}
			}
		}
	}
	pkg := C.Pkgs[pkgPath]
	if pkg == nil {
		return nil, fmt.Errorf("no package %s for type %s", pkgPath, ty)
	}
	pos, ok := C.EvalPos[pkgPath]
	if !ok {
		pos = token.NoPos
	}
	tv, err := types.Eval(P.Fset, pkg, pos, ty)
	if err != nil {
		return nil, fmt.Errorf("type %q in %s: %v", ty, pkgPath, err)
	}
	if !tv.IsType() {
		return nil, fmt.Errorf("%q is not a type", ty)
	}
	return tv.Type, nil
}

var reQualType = regexp.MustCompile(`^((?:\*|\[\])*)([A-Za-z_]\w*)\.([A-Za-z_]\w*)$`)
