package main

import (
	_ "golang.org/x/tools/go/packages"
	_ "golang.org/x/tools/go/ssa"
	_ "golang.org/x/tools/go/ssa/ssautil"
)

func main() {}
