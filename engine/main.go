package main

import (
	"flag"
	"fmt"
	"os"
	"strings"
	"time"
)

func main() {
	if len(os.Args) < 2 {
		fmt.Fprintln(os.Stderr, "usage: govc <dump|verify|check> ...")
		os.Exit(2)
	}
	switch os.Args[1] {
	case "dump":
		P, err := LoadProgram([]string{"./..."})
		if err != nil {
			fmt.Fprintln(os.Stderr, err)
			os.Exit(2)
		}
		for _, n := range os.Args[2:] {
			fn := P.Lookup(n)
			if fn == nil {
				fmt.Println("not found:", n)
				for _, c := range P.FuncNames(n) {
					fmt.Println("  candidate:", c)
				}
				continue
			}
			fn.WriteTo(os.Stdout)
			for _, af := range fn.AnonFuncs {
				af.WriteTo(os.Stdout)
			}
		}
	case "verify":
		fs := flag.NewFlagSet("verify", flag.ExitOnError)
		timeout := fs.Int("t", 10, "solver timeout (s)")
		verbose := fs.Bool("v", false, "verbose")
		out := fs.String("out", "/verif/out/dbg", "output dir")
		fs.Parse(os.Args[2:])
		t0 := time.Now()
		P, err := LoadProgram([]string{"./..."})
		if err != nil {
			fmt.Fprintln(os.Stderr, err)
			os.Exit(2)
		}
		C, err := ParseContracts(P)
		if err != nil {
			fmt.Fprintln(os.Stderr, "contract error:", err)
			os.Exit(2)
		}
		fmt.Fprintf(os.Stderr, "loaded in %.1fs; %d contracts\n", time.Since(t0).Seconds(), len(C.Funcs))
		names := fs.Args()
		if len(names) == 0 {
			names = C.Order
			for _, l := range C.Lemmas {
				names = append(names, "lemma:"+l.Name)
			}
		}
		bad := 0
		for _, n := range names {
			if strings.HasPrefix(n, "lemma:") {
				var lm *Lemma
				for _, l := range C.Lemmas {
					if "lemma:"+l.Name == n {
						lm = l
					}
				}
				if lm == nil {
					fmt.Println("no lemma", n)
					continue
				}
				res := VerifyLemma(P, C, lm)
				SolveAll(res.Obs, *out, *timeout)
				nd := 0
				for _, ob := range res.Obs {
					if ob.Status == "discharged" {
						nd++
					}
				}
				fmt.Printf("== %s: %d/%d discharged\n", n, nd, len(res.Obs))
				if res.Err != "" {
					fmt.Printf("   ERROR: %s\n", res.Err)
					bad++
				}
				for _, ob := range res.Obs {
					if ob.Status != "discharged" || *verbose {
						fmt.Printf("   %-11s %-60s %s %s %.2fs\n", ob.Status, ob.Name, ob.Pos, ob.Solver, ob.TimeS)
						if ob.Status != "discharged" {
							bad++
						}
					}
				}
				continue
			}
			con := C.Funcs[n]
			if con == nil {
				fmt.Println("no contract for", n)
				continue
			}
			if con.Assumed {
				fmt.Printf("== %s: assumed\n", n)
				continue
			}
			if con.Inline {
				fmt.Printf("== %s: inline (verified inside its parent)\n", n)
				continue
			}
			fn := P.Lookup(n)
			if fn == nil {
				fmt.Printf("== %s: FUNCTION NOT FOUND\n", n)
				bad++
				continue
			}
			t1 := time.Now()
			res := VerifyFunc(P, C, fn, con)
			gen := time.Since(t1).Seconds()
			SolveAll(res.Obs, *out, *timeout)
			nd := 0
			for _, ob := range res.Obs {
				if ob.Status == "discharged" {
					nd++
				}
			}
			fmt.Printf("== %s [%s]: %d/%d discharged, %d paths, gen %.1fs total %.1fs\n", n, res.Mode, nd, len(res.Obs), res.Paths, gen, time.Since(t1).Seconds())
			if res.Err != "" {
				fmt.Printf("   ERROR: %s\n", res.Err)
				bad++
			}
			for _, w := range res.Warns {
				fmt.Printf("   warn: %s\n", w)
			}
			for _, ob := range res.Obs {
				if ob.Status != "discharged" || *verbose {
					fmt.Printf("   %-11s %-60s %s %s %.2fs %s\n", ob.Status, ob.Name, ob.Pos, ob.Solver, ob.TimeS, pathTail(ob.Path))
					if ob.Status != "discharged" {
						bad++
						if ob.Detail != "" {
							fmt.Printf("        %s\n", truncate(ob.Detail, 300))
						}
					}
				}
			}
			if *verbose {
				for _, a := range res.Assumed {
					fmt.Printf("   assumes: %s\n", a)
				}
			}
		}
		if bad > 0 {
			os.Exit(1)
		}
	case "check":
		os.Exit(checkMain(os.Args[2:]))
	default:
		fmt.Fprintln(os.Stderr, "unknown command")
		os.Exit(2)
	}
}

func pathTail(p string) string {
	if len(p) > 90 {
		return "…" + p[len(p)-90:]
	}
	return p
}

var _ = strings.Join
