package main

import (
	"fmt"
	"os"
	"go/types"
	"sort"
	"strings"

	"golang.org/x/tools/go/ssa"
)

type contK func(st *State, fr *Frame, results []Val)

func (x *Exec) callInstr(st *State, fr *Frame, call *ssa.Call, b *ssa.BasicBlock, i int, pos string) {
	k := func(st *State, fr *Frame, res []Val) {
		fr.regs[call] = x.packResults(call.Type(), res)
		x.execFrom(st, fr, b, i+1)
	}
	var args []Val
	for _, a := range call.Call.Args {
		args = append(args, x.get(st, fr, a))
	}
	var fv Val
	if call.Call.IsInvoke() || call.Call.StaticCallee() == nil {
		if _, isB := call.Call.Value.(*ssa.Builtin); !isB {
			fv = x.get(st, fr, call.Call.Value)
		}
	}
	x.doCall(st, fr, &call.Call, fv, args, pos, x.describe(fr, call.Call.Value), k)
}

func (x *Exec) packResults(t types.Type, res []Val) Val {
	if tp, ok := t.(*types.Tuple); ok {
		if tp.Len() == 0 {
			return Val{T: t, K: KTuple}
		}
		return Val{T: t, K: KTuple, Fs: res}
	}
	if len(res) == 1 {
		return res[0]
	}
	return Val{T: t, K: KTuple, Fs: res}
}

// describe gives a stable source-level name for a value (used by hook patterns and field-call contracts).
func (x *Exec) describe(fr *Frame, v ssa.Value) string {
	// a value that is (the current value of) a named source variable
	if fr != nil {
		if _, isParam := v.(*ssa.Parameter); !isParam {
			if m := x.debugNames(fr.fn); m != nil {
				for name, vals := range m {
					for _, dv := range vals {
						if dv == v {
							switch v.(type) {
							case *ssa.MakeChan, *ssa.Phi, *ssa.Call, *ssa.Extract, *ssa.UnOp:
								if _, isField := v.(*ssa.UnOp); isField {
									if _, ok := v.(*ssa.UnOp).X.(*ssa.FieldAddr); ok {
										break
									}
								}
								return "local:" + name
							}
						}
					}
				}
			}
		}
	}
	switch n := v.(type) {
	case *ssa.Parameter:
		return "param:" + n.Name()
	case *ssa.UnOp:
		if fa, ok := n.X.(*ssa.FieldAddr); ok {
			st := fa.X.Type().Underlying().(*types.Pointer).Elem()
			return "field:" + typeShort(st) + "." + st.Underlying().(*types.Struct).Field(fa.Field).Name()
		}
		if al, ok := n.X.(*ssa.Alloc); ok {
			return "local:" + al.Comment
		}
		if fv, ok := n.X.(*ssa.FreeVar); ok {
			return "local:" + fv.Name()
		}
	case *ssa.Field:
		st := n.X.Type().Underlying().(*types.Struct)
		return "field:" + typeShort(n.X.Type()) + "." + st.Field(n.Field).Name()
	case *ssa.Call:
		if c := n.Call.StaticCallee(); c != nil {
			return "call:" + FuncName(c)
		}
		if n.Call.IsInvoke() {
			return "call:" + typeShort(n.Call.Value.Type()) + "." + n.Call.Method.Name()
		}
	case *ssa.Phi:
		return "local:" + n.Comment
	case *ssa.MakeChan, *ssa.Alloc:
		return "local:" + v.Name()
	case *ssa.FreeVar:
		return "local:" + n.Name()
	case *ssa.Extract:
		return x.describe(fr, n.Tuple)
	case *ssa.MakeClosure:
		return "closure:" + FuncName(n.Fn.(*ssa.Function))
	case *ssa.Function:
		return "func:" + FuncName(n)
	}
	return ""
}

func (x *Exec) doCall(st *State, fr *Frame, cc *ssa.CallCommon, fv Val, args []Val, pos, desc string, k contK) {
	if bi, ok := cc.Value.(*ssa.Builtin); ok && !cc.IsInvoke() {
		x.builtin(st, fr, bi, cc, args, pos, k)
		return
	}
	if cc.IsInvoke() {
		x.invoke(st, fr, cc, fv, args, pos, k)
		return
	}
	if callee := cc.StaticCallee(); callee != nil {
		var free []Val
		if mc, ok := cc.Value.(*ssa.MakeClosure); ok {
			for _, b := range mc.Bindings {
				free = append(free, x.get(st, fr, b))
			}
		}
		x.callStatic(st, fr, callee, args, free, pos, k)
		return
	}
	// dynamic call through a func value
	x.oblige(st, "nopanic", "nilfunc", pos, not(eq(fv.S, "0")), nil)
	st.assume(not(eq(fv.S, "0")))
	if fv.Clo != nil {
		x.callStatic(st, fr, fv.Clo.Fn, args, fv.Clo.Bindings, pos, k)
		return
	}
	sig := cc.Signature()
	if con, ok := x.C.Funcs[desc]; ok {
		k = x.wrapHooks(st, fr, desc, args, pos, k)
		x.applyContract(st, fr, con, desc, sig, args, pos, k)
		return
	}
	if con, ok := x.C.Funcs["functype:"+typeShort(fv.T)]; ok {
		k = x.wrapHooks(st, fr, "functype:"+typeShort(fv.T), args, pos, k)
		x.applyContract(st, fr, con, "functype:"+typeShort(fv.T), sig, args, pos, k)
		return
	}
	// try "field:T.f" contracts declared with the short field name only
	x.blocked(st, fr, "dynamic call "+desc, sig, pos, k)
}

// blocked: a call the engine cannot give meaning to. The function under verification is reported outside the subset.
func (x *Exec) blocked(st *State, fr *Frame, what string, sig *types.Signature, pos string, k contK) {
	if os.Getenv("GOVC_STRICT") != "" || sig == nil {
		x.unsupported("no contract for %s at %s", what, pos)
	}
	// conservative meaning of a call nothing is known about: it may change the whole heap and return anything
	x.assumed["no contract for "+what+": treated as arbitrary heap effects and an arbitrary result (sound over-approximation; closures it may call back are not run)"] = true
	x.havocAll(st)
	st.allKept = map[string]bool{}
	na := x.freshConst("alloc", "Int")
	st.assume(app("<=", st.alloc, na))
	st.alloc = na
	k(st, fr, x.freshResults(st, sig, "unk"))
}

func (x *Exec) invoke(st *State, fr *Frame, cc *ssa.CallCommon, recv Val, args []Val, pos string, k contK) {
	mname := cc.Method.Name()
	x.oblige(st, "nopanic", "nilreceiver", pos, not(eq(recv.Tag, "0")), nil)
	st.assume(not(eq(recv.Tag, "0")))
	dyn := recv.DynT
	if dyn == nil {
		if kt, ok := st.knownTag[recv.Tag]; ok {
			dyn = kt
		}
	}
	if dyn != nil {
		x.invokeOn(st, fr, dyn, recv, cc, args, pos, k)
		return
	}
	// contract on the interface method?
	iname := "iface:" + typeShort(cc.Value.Type()) + "." + mname
	if con, ok := x.C.Funcs[iname]; ok {
		all := append([]Val{recv}, args...)
		k = x.wrapHooks(st, fr, iname, all, pos, k)
		x.applyContract(st, fr, con, iname, cc.Signature(), all, pos, k)
		return
	}
	// closed world?
	impls := x.C.Ifaces[typeShort(cc.Value.Type())]
	if len(impls) > 0 {
		var ts []types.Type
		var tagOK []string
		for _, s := range impls {
			t, err := x.C.ResolveType(x.P, x.ifaceDeclPkg(typeShort(cc.Value.Type())), s)
			if err != nil {
				x.unsupported("iface decl: %v", err)
			}
			ts = append(ts, t)
			tagOK = append(tagOK, eq(recv.Tag, x.typeId(t)))
		}
		x.oblige(st, "nopanic", "closedworld", pos, or(tagOK...), nil)
		for i, t := range ts {
			st2, fr2 := st, fr
			if i < len(ts)-1 {
				st2, fr2 = st.clone(), fr.clone()
			}
			st2.assume(tagOK[i])
			st2.knownTag[recv.Tag] = t
			st2.pathDesc = append(st2.pathDesc, "dyn="+typeShort(t))
			x.invokeOn(st2, fr2, t, recv, cc, args, pos, k)
		}
		return
	}
	x.blocked(st, fr, "interface method "+iname, cc.Signature(), pos, k)
}

func (x *Exec) ifaceDeclPkg(iface string) string {
	// the iface declaration may live in any contract file; types are resolved in every package that has one until success
	for p := range x.C.EvalPos {
		if _, err := x.C.ResolveType(x.P, p, x.C.Ifaces[iface][0]); err == nil {
			return p
		}
	}
	return x.con.PkgPath
}

func (x *Exec) invokeOn(st *State, fr *Frame, dyn types.Type, recv Val, cc *ssa.CallCommon, args []Val, pos string, k contK) {
	ms := x.P.Prog.MethodSets.MethodSet(dyn)
	sel := ms.Lookup(cc.Method.Pkg(), cc.Method.Name())
	if sel == nil {
		x.unsupported("type %s has no method %s", dyn, cc.Method.Name())
	}
	fn := x.P.Prog.MethodValue(sel)
	if fn == nil {
		x.unsupported("no SSA for method %s of %s", cc.Method.Name(), dyn)
	}
	rv := x.unbox(st, recv, dyn)
	// wrappers for promoted/value-receiver methods take the dynamic type as receiver
	all := append([]Val{rv}, args...)
	x.callStatic(st, fr, fn, all, nil, pos, k)
}

var effectFreePrefixes = []string{
	"github.com/sirupsen/logrus.", "(*github.com/sirupsen/logrus.Entry).", "(*github.com/sirupsen/logrus.Logger).", "log.",
	"fmt.Sprintf", "fmt.Sprint", "time.Now", "time.Since", "(time.Time).", "(time.Duration).", "net.JoinHostPort",
	"(*sync.WaitGroup).", "(*sync.Mutex).", "(*sync.RWMutex).", "(*sync.Map).Range", "context.Background",
	"(github.com/satori/go.uuid.UUID).String", "strconv.", "(*time.Ticker).Stop", "time.NewTicker",
}

func hasAnyPrefix(s string, ps []string) bool {
	for _, p := range ps {
		if strings.HasPrefix(s, p) {
			return true
		}
	}
	return false
}

func isFatal(name string) bool {
	return strings.HasSuffix(name, ".Fatal") || strings.HasSuffix(name, ".Fatalf") || strings.HasSuffix(name, ".Fatalln") ||
		strings.HasSuffix(name, ".Panic") || strings.HasSuffix(name, ".Panicf") || name == "os.Exit"
}

func (x *Exec) callStatic(st *State, fr *Frame, fn *ssa.Function, args []Val, free []Val, pos string, k contK) {
	name := FuncName(fn)
	full := fn.String()
	if fn.Parent() != nil {
		full = name
	}
	k = x.wrapHooks(st, fr, name, args, pos, k)
	if st.infeasible {
		return
	}
	if con, ok := x.C.Funcs[name]; ok && !con.Inline {
		x.applyContract(st, fr, con, name, fn.Signature, args, pos, k)
		return
	}
	if x.modelCall(st, fr, fn, full, args, pos, k) {
		return
	}
	if isFatal(full) || isFatal(name) {
		if x.con.checkNoFatal() {
			x.oblige(st, "nofatal", "", pos, "false", nil)
		}
		x.assumed["process exit at "+shortName(full)+" ends the path"] = true
		st.infeasible = true
		return
	}
	if hasAnyPrefix(full, effectFreePrefixes) {
		x.assumed["effect-free: "+shortName(full)] = true
		k(st, fr, x.freshResults(st, fn.Signature, "r"))
		return
	}
	if fn.Blocks == nil {
		x.blocked(st, fr, name+" (no body)", fn.Signature, pos, k)
		return
	}
	inRepo := (fn.Pkg != nil && strings.HasPrefix(fn.Pkg.Pkg.Path(), repoModule)) || fn.Synthetic != ""
	con := x.C.Funcs[name]
	if con == nil && !inRepo && fn.Parent() == nil && !x.autoInlineDep(full) {
		x.blocked(st, fr, name, fn.Signature, pos, k)
		return
	}
	x.inline(st, fr, fn, con, args, free, pos, k)
}

func (c *Contract) checkNoFatal() bool {
	for _, t := range c.Trust {
		if t == "check nofatal" {
			return true
		}
	}
	return false
}

// small dependency functions that are verified in place by inlining
func (x *Exec) autoInlineDep(full string) bool {
	return strings.HasPrefix(full, "(encoding/binary.littleEndian).") || strings.HasPrefix(full, "(encoding/binary.bigEndian).") ||
		strings.HasPrefix(full, "container/heap.") ||
		strings.HasPrefix(full, "(github.com/marekgalovic/anndb/")
}

func (x *Exec) depth(fr *Frame) int {
	d := 0
	for f := fr; f != nil; f = f.parent {
		d++
	}
	return d
}

func (x *Exec) inline(st *State, fr *Frame, fn *ssa.Function, con *Contract, args []Val, free []Val, pos string, k contK) {
	if x.depth(fr) > 14 {
		x.unsupported("inlining depth exceeded at %s", FuncName(fn))
	}
	for f := fr; f != nil; f = f.parent {
		if f.fn == fn {
			x.unsupported("recursive inlining of %s", FuncName(fn))
		}
	}
	x.inlined[FuncName(fn)] = true
	nf := &Frame{fn: fn, regs: map[ssa.Value]Val{}, parent: fr, contract: con, free: free, inLoops: map[*ssa.BasicBlock]bool{}}
	nf.onReturn = func(st *State, self *Frame, res []Val) { k(st, self.parent, res) }
	if len(args) != len(fn.Params) {
		x.unsupported("arity mismatch inlining %s", FuncName(fn))
	}
	for i, p := range fn.Params {
		a := args[i]
		if a.K != KAddr && a.K != KIface {
			a = retype(a, p.Type())
		}
		nf.regs[p] = a
	}
	st.pathDesc = append(st.pathDesc, ">"+fn.Name())
	x.enterBlock(st, nf, fn.Blocks[0], nil)
}

func (x *Exec) freshResults(st *State, sig *types.Signature, hint string) []Val {
	var res []Val
	for i := 0; i < sig.Results().Len(); i++ {
		res = append(res, x.freshVal(st, sig.Results().At(i).Type(), fmt.Sprintf("%s%d", hint, i)))
	}
	return res
}

// ---- hooks ----

func hookMatches(pattern, name string) bool {
	if pattern == name || pattern == "*" {
		return true
	}
	if strings.HasSuffix(name, pattern) {
		c := name[len(name)-len(pattern)-1]
		return c == '.' || c == ')' || c == ':' || c == '/'
	}
	return false
}

func (x *Exec) hookEnv(st *State, fr *Frame, extra map[string]Val) *Env {
	env := x.baseEnv(st, fr)
	return env.with(extra)
}

func (x *Exec) wrapHooks(st *State, fr *Frame, name string, args []Val, pos string, k contK) contK {
	var matched []*Hook
	for i := range x.con.Hooks {
		h := &x.con.Hooks[i]
		if h.When == "call" && hookMatches(h.Pattern, name) {
			matched = append(matched, h)
		}
	}
	if len(matched) > 0 {
		// hooks restricted to sites where given locals are in scope
		env0 := x.hookEnv(st, fr, nil)
		var kept []*Hook
		for _, h := range matched {
			ok := true
			for _, name := range h.Scope {
				if env0.lookup == nil {
					ok = false
					break
				}
				if _, found := env0.lookup(name); !found {
					ok = false
					break
				}
			}
			if ok {
				kept = append(kept, h)
			}
		}
		matched = kept
	}
	if len(matched) == 0 {
		return k
	}
	extra := map[string]Val{}
	for i, a := range args {
		extra[fmt.Sprintf("$arg%d", i)] = a
	}
	for _, h := range matched {
		env := x.hookEnv(st, fr, extra)
		for _, c := range h.Requires {
			t, err := x.trClause(env, c)
			if err != nil {
				x.unsupported("%v", err)
			}
			x.oblige(st, "order", c.Label, pos, t, c.Props)
			st.assume(t)
		}
	}
	return func(st *State, fr *Frame, res []Val) {
		ex := map[string]Val{}
		for k2, v := range extra {
			ex[k2] = v
		}
		for i, r := range res {
			ex[fmt.Sprintf("$ret%d", i)] = r
		}
		for _, h := range matched {
			x.applyHookEffects(st, fr, h, ex)
		}
		k(st, fr, res)
	}
}

func (x *Exec) applyHookEffects(st *State, fr *Frame, h *Hook, extra map[string]Val) {
	env := x.hookEnv(st, fr, extra)
	for _, c := range h.Assumes {
		t, err := x.trClause(env, c)
		if err != nil {
			x.unsupported("%v", err)
		}
		st.assume(t)
		// an assumption is never silent: it goes into the evidence with its stated reason
		x.assumed[fmt.Sprintf("hook assumption in %s at %s %s (%s): [%s] %s", x.con.Name, h.When, h.Pattern, shortPos(c.Pos), truncate(c.Note, 200), truncate(c.Src, 160))] = true
	}
	// simultaneous assignment
	newVals := map[string]Val{}
	for _, s := range h.Sets {
		v := func() (v Val) {
			defer func() {
				if r := recover(); r != nil {
					if se, ok := r.(specErr); ok {
						x.unsupported("%s: %s", h.Pos, se.msg)
					}
					panic(r)
				}
			}()
			return env.tr(s.E)
		}()
		old, ok := st.ghost[s.Name]
		if !ok {
			x.unsupported("%s: unknown ghost %s", h.Pos, s.Name)
		}
		v = env.coerce(v, old.T)
		v.T = old.T
		newVals[s.Name] = v
	}
	for n, v := range newVals {
		st.ghost[n] = v
		if x.dry > 0 && x.dryGhosts != nil {
			x.dryGhosts[n] = true
		}
	}
}

// ---- contracts at call sites ----

func (x *Exec) paramNames(sig *types.Signature, con *Contract) []string {
	var names []string
	if sig.Recv() != nil {
		n := sig.Recv().Name()
		if n == "" || n == "_" {
			n = "recv"
		}
		names = append(names, n)
	}
	for i := 0; i < sig.Params().Len(); i++ {
		n := sig.Params().At(i).Name()
		if n == "" || n == "_" {
			n = fmt.Sprintf("arg%d", i)
		}
		names = append(names, n)
	}
	return names
}

func (x *Exec) resultVars(sig *types.Signature, res []Val) map[string]Val {
	m := map[string]Val{}
	for i, r := range res {
		m[fmt.Sprintf("ret%d", i)] = r
		if n := sig.Results().At(i).Name(); n != "" && n != "_" {
			m[n] = r
		}
	}
	if len(res) == 1 {
		m["ret"] = res[0]
	}
	if len(res) > 0 {
		last := sig.Results().At(len(res) - 1).Type()
		if types.Identical(last, types.Universe.Lookup("error").Type()) {
			m["err"] = res[len(res)-1]
		}
	}
	return m
}

func (x *Exec) applyContract(st *State, fr *Frame, con *Contract, name string, sig *types.Signature, args []Val, pos string, k contK) {
	names := x.paramNames(sig, con)
	if strings.HasPrefix(name, "iface:") {
		names = []string{"recv"}
		for i := 1; i < len(args); i++ {
			names = append(names, fmt.Sprintf("arg%d", i-1))
		}
	}
	if len(names) != len(args) {
		// method expressions / bound receivers: be lenient by naming positional
		names = nil
		for i := range args {
			names = append(names, fmt.Sprintf("arg%d", i))
		}
	}
	vars := map[string]Val{}
	for i, a := range args {
		vars[names[i]] = a
		vars[names[i]+"0"] = a
		vars[fmt.Sprintf("$arg%d", i)] = a
	}
	if con.Assumed {
		x.assumed["assumed contract: "+name] = true
	}
	nq := new(int)
	*nq = x.nfresh * 1000
	env := &Env{x: x, st: st, vars: vars, pkgPath: con.PkgPath, wrap: con.Mode == ModeBV && x.mode == ModeInt, nq: &x.nfresh, noGhost: true}
	// implicit: pointer receiver non-nil
	if sig.Recv() != nil && !strings.HasPrefix(name, "iface:") {
		if _, isPtr := sig.Recv().Type().Underlying().(*types.Pointer); isPtr && args[0].K == KScalar {
			g := not(eq(args[0].S, "0"))
			x.oblige(st, "nopanic", "nilreceiver", pos, g, nil)
			st.assume(g)
		}
	}
	for i, c := range con.Requires {
		t, err := x.trClause(env, c)
		if err != nil {
			x.unsupported("%v", err)
		}
		label := c.Label
		if label == "" {
			label = fmt.Sprint(i + 1)
		}
		x.oblige(st, "pre@"+shortCallee(name), label, pos, t, c.Props)
		st.assume(t)
	}
	if con.CallsOnce != "" || con.Repeats != "" {
		x.higherOrder(st, fr, con, name, sig, vars, env, pos, k)
		return
	}
	pre := st.clone()
	// allocation may grow (before the havoc, so that modified arrays are bounded by the post-call allocation counter)
	if !con.NoAlloc {
		na := x.freshConst("alloc", "Int")
		st.assume(app("<=", st.alloc, na))
		st.alloc = na
	}
	x.curCallee = name
	x.havocModifies(st, env, con, name)
	x.curCallee = ""
	res := x.freshResults(st, sig, "ret")
	post := env.with(x.resultVars(sig, res))
	post.st = st
	post.old = pre
	x.collectTyping = true
	for _, c := range con.Ensures {
		if mentionsGhost(c.E, con) {
			continue // clauses about the callee's own ghost state are internal to its proof
		}
		t, err := x.trClause(post, c)
		if err != nil {
			if con.Mode != x.mode && strings.Contains(err.Error(), "needs arith bv") {
				// a bit-vector clause of a callee verified in bv mode cannot be stated in this caller's integer mode:
				// the caller simply does not learn it (fewer facts, sound)
				x.assumed["clause ["+c.Label+"] of "+shortName(name)+" is not visible to an integer-mode caller"] = true
				continue
			}
			x.unsupported("%v", err)
		}
		st.assume(t)
	}
	x.collectTyping = false
	x.assumeCollectedTyping(st)
	if con.Functional != "" && len(res) == 1 {
		var argExprs []Expr
		for _, a := range args {
			argExprs = append(argExprs, fixedVal{a})
		}
		fv := x.trVal(post, ECall{Fn: con.Functional, Args: argExprs}, pos)
		rt, ft := x.flatten(res[0]), x.flatten(fv)
		for i := range rt {
			st.assume(eq(rt[i], ft[i]))
		}
	}
	k(st, fr, res)
}

func shortCallee(name string) string {
	if i := strings.LastIndex(name, "/"); i >= 0 {
		name = name[i+1:]
	}
	return name
}

// modGroup describes how one heap array may change.
type modGroup struct {
	whole  bool
	except [][]string // index tuples that may change (pointwise)
	sort   string
}

// resolveModifies maps modifies items to heap arrays, evaluated in env's state.
func (x *Exec) resolveModifies(env *Env, items []ModItem, where string) (map[string]*modGroup, bool) {
	out := map[string]*modGroup{}
	all := false
	x.modExcept = nil
	add := func(name, sort string, whole bool, idx []string) {
		g := out[name]
		if g == nil {
			g = &modGroup{sort: sort}
			out[name] = g
		}
		if whole {
			g.whole = true
		} else {
			g.except = append(g.except, idx)
		}
	}
	safe := func(f func()) {
		defer func() {
			if r := recover(); r != nil {
				if se, ok := r.(specErr); ok {
					x.unsupported("%s: modifies: %s", where, se.msg)
				}
				panic(r)
			}
		}()
		f()
	}
	for _, it := range items {
		it := it
		safe(func() {
			switch it.Kind {
			case "all":
				all = true
			case "allexcept":
				all = true
				type exPart struct{ text, pkg string }
				var parts []exPart
				for _, part := range strings.Split(it.T, ";") {
					part = strings.TrimSpace(part)
					if strings.HasPrefix(part, "set ") {
						fs := x.C.FrameSets[strings.TrimSpace(part[4:])]
						if fs == nil {
							env.fail("modifies * except %s: no such frameset", part)
						}
						for _, fi := range fs.Items {
							parts = append(parts, exPart{fi, fs.PkgPath})
						}
						continue
					}
					parts = append(parts, exPart{part, env.pkgPath})
				}
				for _, ep := range parts {
					part, exPkg := ep.text, ep.pkg
					if strings.HasPrefix(part, "maps[") && strings.HasSuffix(part, "]") {
						// a whole map family stays as it is: "* except maps[map[string][]byte]"
						mt, err := x.C.ResolveType(x.P, exPkg, part[5:len(part)-1])
						if err != nil {
							env.fail("%v", err)
						}
						if _, ok := mt.Underlying().(*types.Map); !ok {
							env.fail("modifies * except %s: not a map type", part)
						}
						prefix, ks, vls := x.mapInfo(mt)
						x.modExcept = append(x.modExcept, prefix+".has", prefix+".len")
						x.noteArr(prefix+".has", "(Array Int (Array "+ks+" Bool))")
						x.noteArr(prefix+".len", "(Array Int "+x.sorts.Idx()+")")
						for _, l := range vls {
							x.modExcept = append(x.modExcept, prefix+".val"+l.suffix)
							x.noteArr(prefix+".val"+l.suffix, "(Array Int (Array "+ks+" "+l.sort+"))")
						}
						continue
					}
					if strings.HasPrefix(part, "mem[") && strings.HasSuffix(part, "]") {
						// the element memory of every slice/array of this element type stays as it is: "* except mem[uint64]"
						et, err := x.C.ResolveType(x.P, exPkg, part[4:len(part)-1])
						if err != nil {
							env.fail("%v", err)
						}
						for _, l := range x.sorts.leaves(et) {
							n := "mem_" + typeKey(et) + l.suffix
							x.modExcept = append(x.modExcept, n)
							x.noteArr(n, "(Array Int (Array "+x.sorts.Idx()+" "+l.sort+"))")
						}
						continue
					}
					part = strings.TrimSpace(strings.TrimPrefix(part, "type "))
					i := strings.LastIndex(part, ".")
					if i < 0 {
						env.fail("modifies * except: bad item %q", part)
					}
					t, err := x.C.ResolveType(x.P, exPkg, part[:i])
					if err != nil {
						env.fail("%v", err)
					}
					stt, ok := t.Underlying().(*types.Struct)
					if !ok {
						env.fail("modifies * except %s: not a struct", part)
					}
					_, path := findField(stt, part[i+1:])
					if path == nil {
						env.fail("modifies * except %s: no such field", part)
					}
					a := &Addr{Prefix: "fld_" + typeKey(t), Idx: []string{"0"}, T: t}
					for _, fi := range path {
						a = x.fieldAddr(a, fi)
					}
					for _, l := range x.sorts.leaves(a.T) {
						x.modExcept = append(x.modExcept, a.Prefix+l.suffix)
						x.noteArr(a.Prefix+l.suffix, x.leafHeapSort(a, l))
					}
				}
			case "field":
				base := env.tr(it.X)
				pt, ok := base.T.Underlying().(*types.Pointer)
				if !ok {
					env.fail("modifies %s: not a pointer", it.Src)
				}
				stt, ok := pt.Elem().Underlying().(*types.Struct)
				if !ok {
					env.fail("modifies %s: not a struct pointer", it.Src)
				}
				_, path := findField(stt, it.F)
				if path == nil {
					env.fail("modifies %s: no field %s", it.Src, it.F)
				}
				a := x.addrOf(base)
				for _, i := range path {
					a = x.fieldAddr(a, i)
				}
				for _, l := range x.sorts.leaves(a.T) {
					add(a.Prefix+l.suffix, x.leafHeapSort(a, l), false, a.Idx)
				}
			case "fields":
				base := env.tr(it.X)
				if base.K == KIface {
					dt := base.DynT
					if dt == nil {
						if kt, ok := env.st.knownTag[base.Tag]; ok {
							dt = kt
						}
					}
					if dt == nil {
						env.fail("fields(%s): dynamic type of the interface value is not known at this call", it.X)
					}
					base = Val{T: dt, K: KScalar, S: base.Pay}
				}
				if _, ok := base.T.Underlying().(*types.Pointer); !ok {
					env.fail("fields(%s): not a pointer", it.X)
				}
				a := x.addrOf(base)
				if n, ok := x.packedObj(a); ok {
					_ = n
					add(a.Prefix, "(Array Int (Array "+x.sorts.Idx()+" "+x.byteSort()+"))", false, a.Idx)
					return
				}
				for _, l := range x.sorts.leaves(a.T) {
					add(a.Prefix+l.suffix, x.leafHeapSort(a, l), false, a.Idx)
				}
			case "tfield":
				t, err := x.C.ResolveType(x.P, env.pkgPath, it.T)
				if err != nil {
					env.fail("%v", err)
				}
				stt, ok := t.Underlying().(*types.Struct)
				if !ok {
					env.fail("modifies type %s: not a struct", it.T)
				}
				_, path := findField(stt, it.F)
				if path == nil {
					env.fail("modifies %s: no field %s", it.Src, it.F)
				}
				a := &Addr{Prefix: "fld_" + typeKey(t), Idx: []string{"0"}, T: t}
				for _, i := range path {
					a = x.fieldAddr(a, i)
				}
				for _, l := range x.sorts.leaves(a.T) {
					add(a.Prefix+l.suffix, x.leafHeapSort(a, l), true, nil)
				}
			case "mem":
				s := env.tr(it.X)
				if s.K != KSlice {
					env.fail("mem(%s): not a slice", it.X)
				}
				et := s.T.Underlying().(*types.Slice).Elem()
				for _, l := range x.sorts.leaves(et) {
					add("mem_"+typeKey(et)+l.suffix, "(Array Int (Array "+x.sorts.Idx()+" "+l.sort+"))", false, []string{s.Ref})
				}
			case "tmem":
				t, err := x.C.ResolveType(x.P, env.pkgPath, it.T)
				if err != nil {
					env.fail("%v", err)
				}
				for _, l := range x.sorts.leaves(t) {
					add("mem_"+typeKey(t)+l.suffix, "(Array Int (Array "+x.sorts.Idx()+" "+l.sort+"))", true, nil)
				}
			case "map", "tmap":
				var mt types.Type
				var ref string
				if it.Kind == "map" {
					m := env.tr(it.X)
					mt, ref = m.T, m.S
				} else {
					t, err := x.C.ResolveType(x.P, env.pkgPath, it.T)
					if err != nil {
						env.fail("%v", err)
					}
					mt = t
				}
				if _, ok := mt.Underlying().(*types.Map); !ok {
					env.fail("modifies %s: not a map", it.Src)
				}
				prefix, ks, vls := x.mapInfo(mt)
				whole := it.Kind == "tmap"
				add(prefix+".has", "(Array Int (Array "+ks+" Bool))", whole, []string{ref})
				add(prefix+".len", "(Array Int "+x.sorts.Idx()+")", whole, []string{ref})
				for _, l := range vls {
					add(prefix+".val"+l.suffix, "(Array Int (Array "+ks+" "+l.sort+"))", whole, []string{ref})
				}
			case "cell", "tcell":
				var a *Addr
				if it.Kind == "cell" {
					p := env.tr(it.X)
					a = x.addrOf(p)
				} else {
					t, err := x.C.ResolveType(x.P, env.pkgPath, it.T)
					if err != nil {
						env.fail("%v", err)
					}
					a = x.addrOf(Val{T: types.NewPointer(t), K: KScalar, S: "0"})
				}
				for _, l := range x.sorts.leaves(a.T) {
					add(a.Prefix+l.suffix, x.leafHeapSort(a, l), it.Kind == "tcell", a.Idx)
				}
			case "new":
				// accepted for documentation; writes to fresh objects never need to be declared
			default:
				env.fail("modifies item kind %s", it.Kind)
			}
		})
	}
	return out, all
}

func (x *Exec) havocModifies(st *State, env *Env, con *Contract, name string) {
	groups, all := x.resolveModifies(env, con.Modifies, name)
	if all {
		keep := map[string]string{}
		for _, n := range x.modExcept {
			keep[n] = x.heapArr(st, n, x.arrSorts[n])
		}
		bounds := map[string]string{}
		for n := range keep {
			bounds[n] = x.refBound(st, n)
		}
		x.havocAll(st)
		// remember what this havoc-all preserved (intersection along the path)
		if st.allKept == nil {
			st.allKept = map[string]bool{}
			for n := range keep {
				st.allKept[n] = true
			}
		} else {
			for n := range st.allKept {
				if _, ok := keep[n]; !ok {
					delete(st.allKept, n)
				}
			}
		}
		for n, v := range keep {
			st.heap[n] = v
			if st.heapBound == nil {
				st.heapBound = map[string]string{}
			}
			st.heapBound[n] = bounds[n]
		}
		return
	}
	for _, n := range sortedKeys(groups) {
		g := groups[n]
		if g.whole {
			x.heapHavoc(st, n, g.sort)
			continue
		}
		cur := x.heapArr(st, n, g.sort)
		inner := arrayElemSort(g.sort)
		t := cur
		for _, idx := range g.except {
			if idx[0] == "0" {
				// fields/mem/map of the nil reference: there is no such object, nothing is written
				continue
			}
			fv := x.freshConst(n+".hv", inner)
			t = sto(t, idx[0], fv)
		}
		x.heapSet(st, n, g.sort, t)
	}
}

func (x *Exec) havocAll(st *State) {
	// the dynamic type of an object is fixed at its allocation: no call can change it, so the type array survives
	keepTyp, hadTyp := st.heap["typ"]
	defer func() {
		if hadTyp {
			st.heap["typ"] = keepTyp
		}
	}()
	st.gen = x.newGen()
	if len(st.localRefs) > 0 {
		if st.preHavoc == nil {
			st.preHavoc = map[string]string{}
		}
		for n, v := range st.heap {
			st.preHavoc[n] = v
		}
	}
	for n := range st.heap {
		delete(st.heap, n)
	}
	st.heapBound = map[string]string{}
	st.writtenAll = true
}

func (x *Exec) newGen() int {
	x.ngen++
	return x.ngen
}

// ---- builtins ----

func (x *Exec) builtin(st *State, fr *Frame, bi *ssa.Builtin, cc *ssa.CallCommon, args []Val, pos string, k contK) {
	switch bi.Name() {
	case "len":
		a := args[0]
		var r string
		switch a.T.Underlying().(type) {
		case *types.Slice:
			r = a.Len
		case *types.Map:
			r = x.mapLen(st, a)
			st.assume(x.idxGe0(r))
			if x.mode == ModeInt {
				// a map cannot hold more entries than the address space has bytes (same bound as slices)
				st.assume(app("<=", r, "281474976710656"))
				if x.con != nil && len(x.con.AllocProps) > 0 {
					st.assume(app("<=", r, x.memcap()))
				}
			}
		case *types.Basic:
			r = x.strLen(a.S)
		case *types.Chan:
			x.decls.Fun("chan.len", []string{"Int"}, x.sorts.Idx())
			r = x.freshConst("chanlen", x.sorts.Idx())
			st.assume(x.idxGe0(r))
		default:
			x.unsupported("len of %s", a.T)
		}
		k(st, fr, []Val{{T: types.Typ[types.Int], K: KScalar, S: r}})
	case "cap":
		k(st, fr, []Val{{T: types.Typ[types.Int], K: KScalar, S: args[0].Cap}})
	case "append":
		x.appendOp(st, fr, args[0], args[1], pos, k)
	case "copy":
		x.copyOp(st, fr, args[0], args[1], pos, k)
	case "delete":
		m, key := args[0], args[1]
		// delete on nil map is a no-op
		x.mapDelete(st, m, key.S)
		k(st, fr, nil)
	case "close":
		x.chanEvent(st, fr, "close", cc.Args[0], args[0], Val{}, pos)
		k(st, fr, nil)
	case "print", "println":
		k(st, fr, nil)
	case "recover":
		k(st, fr, []Val{x.zeroVal(bi.Type().(*types.Signature).Results().At(0).Type())})
	case "ssa:wrapnilchk":
		g := not(eq(args[0].S, "0"))
		x.oblige(st, "nopanic", "nil", pos, g, nil)
		st.assume(g)
		k(st, fr, []Val{args[0]})
	default:
		x.unsupported("builtin %s", bi.Name())
	}
}

func (x *Exec) memArr(st *State, et types.Type, l leaf) (name, sort, cur string) {
	name = "mem_" + typeKey(et) + l.suffix
	sort = "(Array Int (Array " + x.sorts.Idx() + " " + l.sort + "))"
	return name, sort, x.heapArr(st, name, sort)
}

func (x *Exec) appendOp(st *State, fr *Frame, s, t Val, pos string, k contK) {
	et := s.T.Underlying().(*types.Slice).Elem()
	if t.K != KSlice {
		// append([]byte, string...)
		x.unsupported("append of non-slice")
	}
	newLen := x.idxAdd(s.Len, t.Len)
	fits := x.idxLe(newLen, s.Cap)
	leaves := x.sorts.leaves(et)
	one := t.Len == x.idxLit(1)
	// branch 1: in place
	st2, fr2 := st.clone(), fr.clone()
	st.assume(fits)
	st.pathDesc = append(st.pathDesc, "append:inplace")
	if !st.infeasible {
		for _, l := range leaves {
			n, hs, cur := x.memArr(st, et, l)
			if one {
				v := sel(sel(cur, t.Ref), t.Off)
				if x.mode == ModeInt {
					x.heapSet(st, n, hs, sto(cur, s.Ref, app(x.updFun(l.sort), sel(cur, s.Ref), s.Off, s.Len, v)))
				} else {
					x.heapSet(st, n, hs, sto(cur, s.Ref, sto(sel(cur, s.Ref), x.idxAdd(s.Off, s.Len), v)))
				}
			} else {
				_, nw := x.heapHavoc(st, n, hs)
				q := fmt.Sprintf("j!%d", x.nfresh)
				x.nfresh++
				is := x.sorts.Idx()
				// other arrays unchanged; target array changed only in the appended window
				st.assume(fmt.Sprintf("(forall ((r Int)) (=> (not (= r %s)) (= (select %s r) (select %s r))))", s.Ref, nw, cur))
				st.assume(fmt.Sprintf("(forall ((%s %s)) (= (select (select %s %s) %s) (ite (and %s %s) (select (select %s %s) %s) (select (select %s %s) %s))))",
					q, is, nw, s.Ref, q,
					x.idxLe(x.idxAdd(s.Off, s.Len), q), x.idxLt(q, x.idxAdd(x.idxAdd(s.Off, s.Len), t.Len)),
					cur, t.Ref, x.idxAdd(t.Off, x.idxSub(q, x.idxAdd(s.Off, s.Len))),
					cur, s.Ref, q))
			}
		}
		r := Val{T: s.T, K: KSlice, Ref: s.Ref, Off: s.Off, Len: newLen, Cap: s.Cap}
		k(st, fr, []Val{x.nameVal(st, r, "app")})
	}
	// branch 2: reallocate
	st2.assume(not(fits))
	st2.pathDesc = append(st2.pathDesc, "append:realloc")
	if st2.infeasible {
		return
	}
	ref := x.allocRef(st2, "arr")
	x.setTyp(st2, ref, s.T)
	newCap := x.freshConst("cap", x.sorts.Idx())
	st2.assume(x.idxLe(newLen, newCap))
	for _, l := range leaves {
		n, hs, cur := x.memArr(st2, et, l)
		fa := x.freshConst("appended", "(Array "+x.sorts.Idx()+" "+l.sort+")")
		is := x.sorts.Idx()
		q := fmt.Sprintf("j!%d", x.nfresh)
		x.nfresh++
		if x.mode == ModeInt {
			// slc form: quantifiers triggered on slc terms of the old backing array keep firing for the new one
			slc := x.slcFun(l.sort)
			zero := x.idxLit(0)
			st2.assume(fmt.Sprintf("(forall ((%s %s)) (! (=> (and %s %s) (= (%s %s %s %s) (%s (select %s %s) %s %s))) :pattern ((%s %s %s %s))))",
				q, is, x.idxGe0(q), x.idxLt(q, s.Len), slc, fa, zero, q, slc, cur, s.Ref, s.Off, q, slc, fa, zero, q))
			if one {
				st2.assume(eq(app(slc, fa, zero, s.Len), app(slc, sel(cur, t.Ref), t.Off, zero)))
			} else {
				st2.assume(fmt.Sprintf("(forall ((%s %s)) (! (=> (and %s %s) (= (%s %s %s %s) (%s (select %s %s) %s %s))) :pattern ((%s %s %s %s))))",
					q, is, x.idxLe(s.Len, q), x.idxLt(q, newLen), slc, fa, zero, q, slc, cur, t.Ref, t.Off, x.idxSub(q, s.Len), slc, fa, zero, q))
			}
		} else {
			st2.assume(fmt.Sprintf("(forall ((%s %s)) (=> (and %s %s) (= (select %s %s) (select (select %s %s) %s))))",
				q, is, x.idxGe0(q), x.idxLt(q, s.Len), fa, q, cur, s.Ref, x.idxAdd(s.Off, q)))
			if one {
				st2.assume(eq(sel(fa, s.Len), sel(sel(cur, t.Ref), t.Off)))
			} else {
				st2.assume(fmt.Sprintf("(forall ((%s %s)) (=> (and %s %s) (= (select %s %s) (select (select %s %s) %s))))",
					q, is, x.idxLe(s.Len, q), x.idxLt(q, newLen), fa, q, cur, t.Ref, x.idxAdd(t.Off, x.idxSub(q, s.Len))))
			}
		}
		x.heapSet(st2, n, hs, sto(cur, ref, fa))
	}
	r := Val{T: s.T, K: KSlice, Ref: ref, Off: x.idxLit(0), Len: newLen, Cap: newCap}
	k(st2, fr2, []Val{x.nameVal(st2, r, "app")})
}

func (x *Exec) copyOp(st *State, fr *Frame, dst, src Val, pos string, k contK) {
	et := dst.T.Underlying().(*types.Slice).Elem()
	var srcLen string
	if src.K == KSlice {
		srcLen = src.Len
	} else {
		srcLen = x.strLen(src.S)
	}
	n := st.define(x, "ncopy", x.sorts.Idx(), ite(x.idxLe(dst.Len, srcLen), dst.Len, srcLen))
	for _, l := range x.sorts.leaves(et) {
		name, hs, cur := x.memArr(st, et, l)
		is := x.sorts.Idx()
		inner := x.freshConst("copied", "(Array "+is+" "+l.sort+")")
		q := fmt.Sprintf("j!%d", x.nfresh)
		x.nfresh++
		rd := func(arr, off, i string) string {
			if x.mode == ModeInt {
				return app(x.slcFun(l.sort), arr, off, i)
			}
			return sel(arr, x.idxAdd(off, i))
		}
		var srcElem string
		if src.K == KSlice {
			srcElem = rd(sel(cur, src.Ref), src.Off, q)
		} else {
			x.decls.Fun("gstr.at", []string{"Str", x.sorts.Idx()}, x.byteSort())
			srcElem = app("gstr.at", src.S, q)
		}
		body := fmt.Sprintf("(= %s (ite (and %s %s) %s %s))", rd(inner, dst.Off, q), x.idxGe0(q), x.idxLt(q, n), srcElem, rd(sel(cur, dst.Ref), dst.Off, q))
		if x.mode == ModeInt {
			st.assume(fmt.Sprintf("(forall ((%s %s)) (! %s :pattern (%s)))", q, is, body, rd(inner, dst.Off, q)))
		} else {
			st.assume(fmt.Sprintf("(forall ((%s %s)) %s)", q, is, body))
		}
		x.heapSet(st, name, hs, sto(cur, dst.Ref, inner))
	}
	k(st, fr, []Val{{T: types.Typ[types.Int], K: KScalar, S: n}})
}

// modelCall handles library functions with engine-level semantics. Returns false if fn is not modelled.
func (x *Exec) modelCall(st *State, fr *Frame, fn *ssa.Function, full string, args []Val, pos string, k contK) bool {
	switch full {
	case "sync/atomic.LoadUint64", "sync/atomic.LoadUint32", "sync/atomic.LoadPointer", "sync/atomic.LoadInt64", "sync/atomic.LoadInt32":
		x.nilCheck(st, args[0], pos)
		v := x.load(st, x.addrOf(args[0]))
		k(st, fr, []Val{v})
		return true
	case "sync/atomic.StoreUint64", "sync/atomic.StoreUint32", "sync/atomic.StorePointer", "sync/atomic.StoreInt64", "sync/atomic.StoreInt32":
		x.nilCheck(st, args[0], pos)
		a := x.addrOf(args[0])
		x.store(st, a, retype(args[1], a.T))
		k(st, fr, nil)
		return true
	case "sync/atomic.AddUint64", "sync/atomic.AddUint32", "sync/atomic.AddInt64", "sync/atomic.AddInt32":
		x.nilCheck(st, args[0], pos)
		a := x.addrOf(args[0])
		cur := x.load(st, a)
		w, signed, _ := isIntType(a.T)
		var r string
		if x.mode == ModeBV {
			r = app("bvadd", cur.S, args[1].S)
		} else {
			r = x.wrapInt(app("+", cur.S, args[1].S), w, signed)
		}
		r = st.define(x, "atomicadd", leafSortOf(x, a.T), r)
		nv := Val{T: a.T, K: KScalar, S: r}
		x.store(st, a, nv)
		k(st, fr, []Val{nv})
		return true
	case "sync/atomic.CompareAndSwapPointer", "sync/atomic.CompareAndSwapUint32", "sync/atomic.CompareAndSwapUint64":
		x.nilCheck(st, args[0], pos)
		a := x.addrOf(args[0])
		cur := x.load(st, a)
		ok := st.define(x, "cas", "Bool", eq(cur.S, args[1].S))
		x.store(st, a, Val{T: a.T, K: KScalar, S: ite(ok, args[2].S, cur.S)})
		k(st, fr, []Val{{T: types.Typ[types.Bool], K: KScalar, S: ok}})
		return true
	case "errors.New":
		r := x.allocRef(st, "err")
		et := types.NewPointer(x.errorStringType())
		x.setTyp(st, r, et.Elem())
		k(st, fr, []Val{{T: fn.Signature.Results().At(0).Type(), K: KIface, Tag: x.typeId(et), Pay: r, DynT: nil}})
		return true
	}
	return false
}

func leafSortOf(x *Exec, t types.Type) string {
	s, _ := x.sorts.scalarSort(t)
	return s
}

func (x *Exec) errorStringType() types.Type {
	if p := x.P.SSA["errors"]; p != nil {
		if m := p.Type("errorString"); m != nil {
			return m.Type()
		}
	}
	return types.Typ[types.Int]
}

// ---- sentinels (package-level error values initialised once by errors.New) ----

func (x *Exec) isSentinel(g *ssa.Global) bool {
	if v, ok := x.sentinels[g]; ok {
		return v
	}
	res := false
	el := g.Type().(*types.Pointer).Elem()
	if _, isIface := el.Underlying().(*types.Interface); isIface {
		initFn := g.Pkg.Func("init")
		stores := 0
		good := false
		for _, m := range g.Pkg.Members {
			f, ok := m.(*ssa.Function)
			if !ok {
				continue
			}
			fns := append([]*ssa.Function{f}, f.AnonFuncs...)
			for _, ff := range fns {
				for _, b := range ff.Blocks {
					for _, in := range b.Instrs {
						if s, ok := in.(*ssa.Store); ok && s.Addr == g {
							stores++
							if ff == initFn {
								if c, ok := s.Val.(*ssa.Call); ok {
									if callee := c.Call.StaticCallee(); callee != nil && (callee.String() == "errors.New" || callee.String() == "fmt.Errorf") {
										good = true
									}
								}
							}
						}
					}
				}
			}
		}
		// also methods may store; scan all functions of the package via program
		res = good && stores == 1
	}
	x.sentinels[g] = res
	return res
}

func (x *Exec) sentinelVal(st *State, g *ssa.Global) (Val, bool) {
	if !x.isSentinel(g) {
		return Val{}, false
	}
	name := "sentinel_" + mangle(shortName(g.Pkg.Pkg.Path())) + "." + g.Name()
	first := true
	if _, ok := x.decls.set[name]; ok {
		first = false
	}
	x.decls.Const(name, "Int")
	if first {
		x.ensurePre(app("<", "0", name))
		for _, other := range x.sentinelNames {
			x.ensurePre(not(eq(name, other)))
		}
		x.sentinelNames = append(x.sentinelNames, name)
		x.ensurePre(app("<=", name, "alloc!0"))
		x.decls.Const("alloc!0", "Int")
	}
	el := g.Type().(*types.Pointer).Elem()
	et := types.NewPointer(x.errorStringType())
	return Val{T: el, K: KIface, Tag: x.typeId(et), Pay: name}, true
}

// ---- defers ----

func (x *Exec) runDefers(st *State, fr *Frame, k func(st *State, fr *Frame)) {
	if len(fr.defers) == 0 {
		k(st, fr)
		return
	}
	d := fr.defers[len(fr.defers)-1]
	fr.defers = fr.defers[:len(fr.defers)-1]
	x.doCall(st, fr, d.Call, d.Fn, d.Args, d.Pos, "defer", func(st *State, fr *Frame, _ []Val) {
		x.runDefers(st, fr, k)
	})
}

// ---- go / channels / select ----

func (x *Exec) chanHooks(when, desc string) []*Hook {
	var out []*Hook
	for i := range x.con.Hooks {
		h := &x.con.Hooks[i]
		if h.When == when && (hookMatches(h.Pattern, desc) || h.Pattern == "*") {
			out = append(out, h)
		}
	}
	return out
}

func (x *Exec) chanEvent(st *State, fr *Frame, when string, chv ssa.Value, ch Val, val Val, pos string) {
	desc := x.describe(fr, chv)
	extra := map[string]Val{"$chan": ch}
	if val.T != nil {
		extra["$val"] = val
	}
	hs := x.chanHooks(when, desc)
	for _, h := range hs {
		env := x.hookEnv(st, fr, extra)
		for _, c := range h.Requires {
			t, err := x.trClause(env, c)
			if err != nil {
				x.unsupported("%v", err)
			}
			x.oblige(st, "order", c.Label, pos, t, c.Props)
			st.assume(t)
		}
		x.applyHookEffects(st, fr, h, extra)
	}
	if when == "close" && x.con != nil {
		// "noclose *": no channel at all is closed on any path of this function, including helpers executed in place
		for _, nc := range x.con.NoClose {
			if nc == "*" && len(hs) == 0 {
				x.oblige(st, "noclose", "*.executed", pos, "false", nil)
			}
		}
	}
	if len(hs) == 0 {
		x.assumed[fmt.Sprintf("%s on channel %s has no protocol hook: treated as a no-op", when, desc)] = true
	}
}

func (x *Exec) goStmt(st *State, fr *Frame, g *ssa.Go, pos string) {
	name := x.describe(fr, g.Call.Value)
	if c := g.Call.StaticCallee(); c != nil {
		name = "func:" + FuncName(c)
	}
	extra := map[string]Val{}
	for i, a := range g.Call.Args {
		extra[fmt.Sprintf("$arg%d", i)] = x.get(st, fr, a)
	}
	hs := x.chanHooks("go", strings.TrimPrefix(strings.TrimPrefix(name, "func:"), "closure:"))
	for _, h := range hs {
		env := x.hookEnv(st, fr, extra)
		for _, c := range h.Requires {
			t, err := x.trClause(env, c)
			if err != nil {
				x.unsupported("%v", err)
			}
			x.oblige(st, "order", c.Label, pos, t, c.Props)
			st.assume(t)
		}
		x.applyHookEffects(st, fr, h, extra)
	}
	x.assumed["go statement at "+pos+": the spawned body is not executed by the generator (environment contract only)"] = true
	// captured-cell stability: a variable captured by reference by the spawned closure must not be assigned by the spawner afterwards
	if mc, ok := g.Call.Value.(*ssa.MakeClosure); ok {
		for _, b := range mc.Bindings {
			al, ok := b.(*ssa.Alloc)
			if !ok {
				continue
			}
			goal := "true"
			if st := storeReachableAfter(g, al); st != nil {
				goal = "false"
				x.warn("variable %q captured by reference by the goroutine started at %s is assigned again at %s", al.Comment, pos, x.posOf(st))
			}
			x.oblige(st, "spawn", "stable-capture."+al.Comment, pos, goal, nil)
		}
	}
}

// storeReachableAfter finds a store to cell that can execute after instruction `from` (same function, CFG reachability).
func storeReachableAfter(from ssa.Instruction, cell *ssa.Alloc) ssa.Instruction {
	blk := from.Block()
	seenFrom := false
	check := func(in ssa.Instruction) bool {
		s, ok := in.(*ssa.Store)
		return ok && s.Addr == cell
	}
	for _, in := range blk.Instrs {
		if in == from {
			seenFrom = true
			continue
		}
		if seenFrom && in == ssa.Instruction(cell) {
			return nil // the cell is re-allocated before anything else happens: a fresh variable per iteration
		}
		if seenFrom && check(in) {
			return in
		}
	}
	visited := map[*ssa.BasicBlock]bool{}
	stack := append([]*ssa.BasicBlock{}, blk.Succs...)
	for len(stack) > 0 {
		b := stack[len(stack)-1]
		stack = stack[:len(stack)-1]
		if visited[b] {
			continue
		}
		visited[b] = true
		stop := false
		for _, in := range b.Instrs {
			if in == from {
				stop = true
				break
			}
			if in == ssa.Instruction(cell) {
				// re-executing the allocation creates a new cell: stores after it do not touch the captured one
				stop = true
				break
			}
			if check(in) {
				return in
			}
		}
		if !stop {
			stack = append(stack, b.Succs...)
		}
	}
	return nil
}

func (x *Exec) sendStmt(st *State, fr *Frame, s *ssa.Send, pos string) {
	ch := x.get(st, fr, s.Chan)
	v := x.get(st, fr, s.X)
	x.chanEvent(st, fr, "send", s.Chan, ch, v, pos)
}

func (x *Exec) recvOp(st *State, fr *Frame, u *ssa.UnOp, ch Val, pos string) Val {
	et := ch.T.Underlying().(*types.Chan).Elem()
	v := x.freshVal(st, et, "recv")
	ok := Val{T: types.Typ[types.Bool], K: KScalar, S: x.freshConst("recvok", "Bool")}
	desc := x.describe(fr, u.X)
	if x.neverClosed(desc) {
		st.assume(ok.S)
	}
	extra := map[string]Val{"$chan": ch, "$recv": v, "$ok": ok}
	hs := x.chanHooks("recv", desc)
	for _, h := range hs {
		x.applyHookEffects(st, fr, h, extra)
	}
	if len(hs) == 0 {
		x.assumed[fmt.Sprintf("receive on channel %s: most general value (no protocol hook)", desc)] = true
	}
	if u.CommaOk {
		return Val{T: u.Type(), K: KTuple, Fs: []Val{v, ok}}
	}
	return v
}

func (x *Exec) selectStmt(st *State, fr *Frame, s *ssa.Select, b *ssa.BasicBlock, i int, pos string) {
	// result tuple: (index int, recvOk bool, r_0 T_0, ... for each recv state)
	tup := s.Type().(*types.Tuple)
	n := len(s.States)
	total := n
	if !s.Blocking {
		total++
	}
	for c := 0; c < total; c++ {
		st2, fr2 := st, fr
		if c < total-1 {
			st2, fr2 = st.clone(), fr.clone()
		}
		idx := c
		if c == n {
			idx = -1
		}
		fs := []Val{{T: types.Typ[types.Int], K: KScalar, S: x.intLitMode(int64(idx), 64)}}
		okv := Val{T: types.Typ[types.Bool], K: KScalar, S: "false"}
		var recvVals []Val
		ri := 2
		for j, sc := range s.States {
			if sc.Dir == types.RecvOnly {
				et := tup.At(ri).Type()
				ri++
				if j == idx {
					chv := x.get(st2, fr2, sc.Chan)
					v := x.freshVal(st2, et, "recv")
					okc := Val{T: types.Typ[types.Bool], K: KScalar, S: x.freshConst("recvok", "Bool")}
					desc := x.describe(fr2, sc.Chan)
					if x.neverClosed(desc) {
						st2.assume(okc.S)
					}
					extra := map[string]Val{"$chan": chv, "$recv": v, "$ok": okc}
					hs := x.chanHooks("recv", desc)
					for _, h := range hs {
						x.applyHookEffects(st2, fr2, h, extra)
					}
					if len(hs) == 0 {
						x.assumed[fmt.Sprintf("receive on channel %s: most general value (no protocol hook)", desc)] = true
					}
					okv = okc
					recvVals = append(recvVals, v)
				} else {
					recvVals = append(recvVals, x.zeroVal(et))
				}
			} else if j == idx {
				chv := x.get(st2, fr2, sc.Chan)
				x.chanEvent(st2, fr2, "send", sc.Chan, chv, x.get(st2, fr2, sc.Send), pos)
			}
		}
		fs = append(fs, okv)
		fs = append(fs, recvVals...)
		fr2.regs[s] = Val{T: s.Type(), K: KTuple, Fs: fs}
		st2.pathDesc = append(st2.pathDesc, fmt.Sprintf("select%s=%d", lineOf(pos), idx))
		x.execFrom(st2, fr2, b, i+1)
	}
}

func (x *Exec) intLitMode(n int64, w int) string {
	if x.mode == ModeBV {
		return fmt.Sprintf("(_ bv%d %d)", uint64(n), w)
	}
	return intLit(n)
}

var _ = sort.Strings

// higherOrder gives meaning to assumed callees that call a closure argument: exactly once (callsonce) or any number of times (repeats).
func (x *Exec) higherOrder(st *State, fr *Frame, con *Contract, name string, sig *types.Signature, vars map[string]Val, env *Env, pos string, k contK) {
	pname := con.CallsOnce
	if pname == "" {
		pname = con.Repeats
	}
	fv, ok := vars[pname]
	if !ok || fv.Clo == nil {
		x.unsupported("%s: %s passes a function that is not a closure literal known at the call site", pos, name)
	}
	clo := fv.Clo
	csig := clo.Fn.Signature
	finishCall := func(st *State, fr *Frame, cres []Val) {
		pre := st.clone()
		na := x.freshConst("alloc", "Int")
		st.assume(app("<=", st.alloc, na))
		st.alloc = na
		x.curCallee = name
		x.havocModifies(st, env, con, name)
		x.curCallee = ""
		res := x.freshResults(st, sig, "ret")
		rv := x.resultVars(sig, res)
		for i, r := range cres {
			rv[fmt.Sprintf("$fnret%d", i)] = r
		}
		post := env.with(rv)
		post.st = st
		post.old = pre
		for _, c := range con.Ensures {
			t, err := x.trClause(post, c)
			if err != nil {
				x.unsupported("%v", err)
			}
			st.assume(t)
		}
		k(st, fr, res)
	}
	if con.CallsOnce != "" {
		var args []Val
		for i := 0; i < csig.Params().Len(); i++ {
			args = append(args, x.freshVal(st, csig.Params().At(i).Type(), fmt.Sprintf("cbarg%d", i)))
		}
		x.callStatic(st, fr, clo.Fn, args, clo.Bindings, pos, finishCall)
		return
	}
	// repeats: the closure runs any number of times; the caller supplies an invariant (callinv) through a hook on this call
	var invs []Clause
	for i := range x.con.Hooks {
		h := &x.con.Hooks[i]
		if h.When == "call" && hookMatches(h.Pattern, name) {
			invs = append(invs, h.CallInv...)
		}
	}
	check := func(st *State, fr *Frame, when string) {
		e := x.baseEnv(st, fr).with(vars)
		for i, c := range invs {
			t, err := x.trClause(e, c)
			if err != nil {
				x.unsupported("%v", err)
			}
			label := c.Label
			if label == "" {
				label = fmt.Sprint(i + 1)
			}
			x.oblige(st, "callinv", label+"."+when, pos, t, c.Props)
		}
	}
	assumeInv := func(st *State, fr *Frame) {
		e := x.baseEnv(st, fr).with(vars)
		for _, c := range invs {
			t, err := x.trClause(e, c)
			if err != nil {
				x.unsupported("%v", err)
			}
			st.assume(t)
		}
	}
	check(st, fr, "entry")
	// discover what the closure writes (dry run), havoc it, assume the invariant: state after an arbitrary number of calls
	ws := x.closureWriteSet(st, fr, clo, csig, pos)
	x.inLoopHavoc = true
	if ws.all {
		x.havocAll(st)
	} else {
		for _, n := range sortedKeys(ws.names) {
			x.heapHavoc(st, n, x.arrSorts[n])
		}
	}
	x.inLoopHavoc = false
	// the automatic function frame survives the havoc
	if fr.parent == nil && !x.fnModAll && !ws.all {
		for _, n := range sortedKeys(ws.names) {
			st.assume(x.frameFormula(st, n))
		}
	}
	assumeInv(st, fr)
	// one more call preserves the invariant
	st2, fr2 := st.clone(), fr.clone()
	var args []Val
	cbvars := map[string]Val{}
	for i := 0; i < csig.Params().Len(); i++ {
		a := x.freshVal(st2, csig.Params().At(i).Type(), fmt.Sprintf("cbarg%d", i))
		args = append(args, a)
		cbvars[fmt.Sprintf("$a%d", i)] = a
	}
	e2 := x.baseEnv(st2, fr2).with(vars).with(cbvars)
	e2.pkgPath = con.PkgPath
	for _, c := range con.RepeatReq {
		t, err := x.trClause(e2, c)
		if err != nil {
			x.unsupported("%v", err)
		}
		st2.assume(t)
	}
	st2.pathDesc = append(st2.pathDesc, "closure-step")
	x.callStatic(st2, fr2, clo.Fn, args, clo.Bindings, pos, func(st *State, fr *Frame, _ []Val) {
		check(st, fr, "preserved")
		if fr.parent == nil && !x.fnModAll {
			for _, n := range sortedKeys(ws.names) {
				f := x.frameFormula(st, n)
				if f != "true" {
					x.oblige(st, "frame", "closure."+shortArr(n), pos, f, nil)
				}
			}
		}
	})
	st.pathDesc = append(st.pathDesc, "after-"+shortCallee(name))
	finishCall(st, fr, nil)
}

func (x *Exec) closureWriteSet(st *State, fr *Frame, clo *Closure, csig *types.Signature, pos string) *writeSet {
	saveFn, saveBody, saveAcc, saveAll := x.dryFrameFn, x.dryBody, x.dryAcc, x.dryAll
	x.dry++
	x.dryFrameFn, x.dryBody, x.dryAcc, x.dryAll = nil, nil, map[string]bool{}, false
	st2, fr2 := st.clone(), fr.clone()
	st2.written = map[string]bool{}
	st2.writtenAll = false
	var args []Val
	for i := 0; i < csig.Params().Len(); i++ {
		args = append(args, x.freshVal(st2, csig.Params().At(i).Type(), fmt.Sprintf("dryarg%d", i)))
	}
	func() {
		defer func() { x.dry-- }()
		x.callStatic(st2, fr2, clo.Fn, args, clo.Bindings, pos, func(st *State, fr *Frame, _ []Val) { x.dryStop(st) })
	}()
	ws := &writeSet{names: x.dryAcc, all: x.dryAll}
	x.dryFrameFn, x.dryBody, x.dryAcc, x.dryAll = saveFn, saveBody, saveAcc, saveAll
	if x.dry > 0 && x.dryAcc != nil {
		for n := range ws.names {
			x.dryAcc[n] = true
		}
		if ws.all {
			x.dryAll = true
		}
	}
	return ws
}

// neverClosed: the contract under verification declares (and separately proves, obligation noclose#X) that the channel
// variable is closed neither by this function nor by its function literals; a receive on it then always delivers a real message.
func (x *Exec) neverClosed(desc string) bool {
	for _, ch := range x.con.NoClose {
		if desc == "local:"+ch || desc == "param:"+ch {
			return true
		}
	}
	return false
}

func mentionsGhost(e Expr, con *Contract) bool {
	if len(con.Ghosts) == 0 {
		return false
	}
	ids := map[string]bool{}
	collectIdents(e, ids)
	for _, g := range con.Ghosts {
		if ids[g.Name] {
			return true
		}
	}
	return false
}

func collectIdents(e Expr, out map[string]bool) {
	switch n := e.(type) {
	case EIdent:
		out[n.Name] = true
	case EBin:
		collectIdents(n.L, out)
		collectIdents(n.R, out)
	case EUn:
		collectIdents(n.X, out)
	case EQuant:
		collectIdents(n.Body, out)
	case ECall:
		for _, a := range n.Args {
			collectIdents(a, out)
		}
	case ESel:
		collectIdents(n.X, out)
	case EIndex:
		collectIdents(n.X, out)
		collectIdents(n.I, out)
	case ESlice:
		collectIdents(n.X, out)
		if n.Lo != nil {
			collectIdents(n.Lo, out)
		}
		if n.Hi != nil {
			collectIdents(n.Hi, out)
		}
	case ECast:
		collectIdents(n.X, out)
	case EDeref:
		collectIdents(n.X, out)
	case EIte:
		collectIdents(n.C, out)
		collectIdents(n.A, out)
		collectIdents(n.B, out)
	}
}

// shortPos keeps the file's base name and line of a contract position.
func shortPos(p string) string {
	if i := strings.LastIndex(p, "/"); i >= 0 {
		return p[i+1:]
	}
	return p
}
