package main

import (
	"fmt"
	"math/big"
	"go/token"
	"go/types"
	"runtime/debug"
	"sort"
	"strings"

	"golang.org/x/tools/go/ssa"
)

type FuncResult struct {
	Name     string
	Contract *Contract
	Obs      []*Ob
	Err      string // outside-subset / binding error
	Warns    []string
	Assumed  []string
	Inlined  []string
	Paths    int
	Mode     string
}

func NewExec(P *Program, C *Contracts, fn *ssa.Function, con *Contract) *Exec {
	x := &Exec{P: P, C: C, fn: fn, con: con, mode: con.Mode, sorts: Sorts{con.Mode}, decls: NewDecls(),
		obSeen: map[string]int{}, typeIds: map[string]int{}, strConsts: map[string]string{}, fltConsts: map[string]string{},
		assumed: map[string]bool{}, inlined: map[string]bool{}, sentinels: map[*ssa.Global]bool{},
		loopInfo: map[*ssa.Function]*LoopInfo{}, maxPaths: 20000, blockedCalls: map[string]bool{},
		loopWrites: map[*ssa.BasicBlock]*writeSet{}}
	return x
}

// VerifyFunc generates all obligations for fn under contract con.
func VerifyFunc(P *Program, C *Contracts, fn *ssa.Function, con *Contract) (res *FuncResult) {
	x := NewExec(P, C, fn, con)
	res = &FuncResult{Name: con.Name, Contract: con, Mode: con.Mode.String()}
	defer func() {
		if r := recover(); r != nil {
			switch e := r.(type) {
			case unsupported:
				res.Err = e.msg
			case specErr:
				res.Err = "spec error: " + e.msg
			default:
				res.Err = fmt.Sprintf("engine panic: %v\n%s", r, debug.Stack())
			}
		}
		res.Obs = x.obs
		res.Paths = x.npaths
		res.Warns = sortedKeys(x.warns)
		res.Assumed = sortedKeys(x.assumed)
		res.Inlined = sortedKeys(x.inlined)
	}()
	if fn.Blocks == nil {
		x.unsupported("function %s has no body", con.Name)
	}
	st := &State{heap: map[string]string{}, ghost: map[string]Val{}, written: map[string]bool{},
		knownTag: map[string]types.Type{}, iters: map[ssa.Value]*IterState{}}
	x.decls.Const("alloc!0", "Int")
	st.alloc = "alloc!0"
	st.assume(app("<=", "0", "alloc!0"))
	fr := &Frame{fn: fn, regs: map[ssa.Value]Val{}, contract: con, inLoops: map[*ssa.BasicBlock]bool{}}
	for _, p := range fn.Params {
		v := x.freshVal(st, p.Type(), "p."+p.Name())
		if it, ok := p.Type().Underlying().(*types.Interface); ok {
			_ = it
		}
		fr.regs[p] = v
	}
	for i, fv := range fn.FreeVars {
		v := x.freshVal(st, fv.Type(), "fv."+fv.Name())
		_ = i
		fr.free = append(fr.free, v)
	}
	// receiver non-nil
	if fn.Signature.Recv() != nil && len(fn.Params) > 0 {
		if _, isPtr := fn.Params[0].Type().Underlying().(*types.Pointer); isPtr {
			st.assume(not(eq(fr.regs[fn.Params[0]].S, "0")))
		}
	}
	// typing of heap-allocated parameters: typ[p] matches static pointee type (when non-nil)
	for _, p := range fn.Params {
		if pt, ok := p.Type().Underlying().(*types.Pointer); ok {
			v := fr.regs[p]
			st.assume(implies(not(eq(v.S, "0")), eq(sel(x.typArr(st), v.S), x.typeId(pt.Elem()))))
		}
	}
	// ghosts
	env0 := x.baseEnv(st, fr)
	for _, g := range con.Ghosts {
		t, err := C.ResolveType(P, con.PkgPath, g.Type)
		if err != nil {
			x.unsupported("%s: ghost %s: %v", con.Pos, g.Name, err)
		}
		if id, ok := g.Init.(EIdent); ok && id.Name == "any" {
			// an arbitrary but fixed value: what is proved for it holds for every value of the type
			st.ghost[g.Name] = x.freshVal(st, t, "ghost."+g.Name)
			continue
		}
		v := x.trVal(env0, g.Init, con.Pos)
		v = env0.coerce(v, t)
		v.T = t
		st.ghost[g.Name] = v
	}
	// dynamic type restrictions on interface parameters
	for pname, tys := range con.Dyn {
		var pv *Val
		for _, p := range fn.Params {
			if p.Name() == pname {
				v := fr.regs[p]
				pv = &v
			}
		}
		if pv == nil || pv.K != KIface {
			x.unsupported("%s: dyn %s: no such interface parameter", con.Pos, pname)
		}
		var alts []string
		for _, ts := range tys {
			t, err := C.ResolveType(P, con.PkgPath, ts)
			if err != nil {
				x.unsupported("%s: %v", con.Pos, err)
			}
			alts = append(alts, eq(pv.Tag, x.typeId(t)))
		}
		st.assume(or(alts...))
	}
	x.old = st.clone()
	env := x.baseEnv(st, fr)
	x.collectTyping = true
	for _, c := range con.Requires {
		t, err := x.trClause(env, c)
		if err != nil {
			x.unsupported("%v", err)
		}
		st.assume(t)
	}
	x.collectTyping = false
	x.assumeCollectedTyping(st)
	for _, c := range con.EntryAssumes {
		t, err := x.trClause(env, c)
		if err != nil {
			x.unsupported("%v", err)
		}
		st.assume(t)
		x.assumed["entry assumption ["+c.Label+"] of "+shortName(con.Name)+": "+c.Src] = true
	}
	x.old = st.clone()
	// resolve own modifies once in the entry state
	menv := x.baseEnv(x.old, fr)
	x.fnMods, x.fnModAll = x.resolveModifies(menv, con.Modifies, con.Pos)
	// vacuity cover: requires must be satisfiable
	x.cover(st, "requires", con.Pos)
	for _, ch := range con.NoClose {
		goal := "true"
		if p := closesChannel(fn, ch); p != "" {
			goal = "false"
			x.warn("channel %s is closed at %s", ch, p)
		}
		x.oblige(st, "noclose", ch, con.Pos, goal, nil)
	}
	fr.onReturn = func(st *State, self *Frame, results []Val) { x.finish(st, self, results) }
	x.enterBlock(st, fr, fn.Blocks[0], nil)
	return res
}

func (x *Exec) trVal(env *Env, e Expr, pos string) (v Val) {
	defer func() {
		if r := recover(); r != nil {
			if se, ok := r.(specErr); ok {
				x.unsupported("%s: %s", pos, se.msg)
			}
			panic(r)
		}
	}()
	return env.tr(e)
}

// cover emits a satisfiability check ("the assumptions so far are consistent"); status sat/unknown is OK, unsat is vacuity.
func (x *Exec) cover(st *State, what, pos string) {
	if x.dry > 0 {
		return
	}
	ob := &Ob{Name: fmt.Sprintf("%s/cover#%s", x.con.Name, what), Kind: "cover", Label: what, Func: x.con.Name, Pos: pos, Props: x.con.Props}
	x.obSeen[ob.Name]++
	if n := x.obSeen[ob.Name]; n > 1 {
		ob.Name = fmt.Sprintf("%s@%d", ob.Name, n)
	}
	ob.Query = x.query(st, "false")
	ob.Light = x.queryOpt(st, "false", true)
	x.obs = append(x.obs, ob)
}

// baseEnv: parameters, named locals and ghosts of the frame's function.
func (x *Exec) baseEnv(st *State, fr *Frame) *Env {
	vars := map[string]Val{}
	for _, p := range fr.fn.Params {
		if v, ok := fr.regs[p]; ok {
			vars[p.Name()+"0"] = v
		}
	}
	for i, fv := range fr.fn.FreeVars {
		if i < len(fr.free) {
			vars[fv.Name()] = fr.free[i]
		}
	}
	pkg := x.con.PkgPath
	if fr.contract != nil {
		pkg = fr.contract.PkgPath
	}
	env := &Env{x: x, st: st, old: x.old, vars: vars, pkgPath: pkg, nq: &x.nfresh, wrap: false}
	env.lookup = func(name string) (Val, bool) { return x.lookupLocal(st, fr, name) }
	return env
}

// lookupLocal resolves a source-level local variable name to its current value.
func (x *Exec) lookupLocal(st *State, fr *Frame, name string) (Val, bool) {
	if strings.HasPrefix(name, "$t") {
		for v, val := range fr.regs {
			if v.Name() == name[1:] {
				return val, true
			}
		}
		return Val{}, false
	}
	// a parameter that is never re-assigned denotes its entry value; a re-assigned one denotes its latest phi
	var param *ssa.Parameter
	for _, p := range fr.fn.Params {
		if p.Name() == name {
			param = p
		}
	}
	// phis (loop-carried or merged variables) and allocs carry the variable name in Comment
	var best ssa.Value
	var bestVal Val
	for v, val := range fr.regs {
		switch n := v.(type) {
		case *ssa.Phi:
			if n.Comment == name {
				if best == nil || n.Block().Index > best.(ssa.Instruction).Block().Index {
					best, bestVal = v, val
				}
			}
		}
	}
	if best != nil {
		return bestVal, true
	}
	for v, val := range fr.regs {
		if al, ok := v.(*ssa.Alloc); ok && al.Comment == name {
			return x.loadPure(st, x.addrOf(val)), true
		}
	}
	if param != nil {
		if v, ok := fr.regs[param]; ok {
			return v, true
		}
	}
	// named results / other values via debug refs
	if m := x.debugNames(fr.fn); m != nil {
		if vs, ok := m[name]; ok {
			// latest defined value on this path
			var pick ssa.Value
			for _, v := range vs {
				if _, ok := fr.regs[v]; ok {
					pick = v
				}
			}
			if pick != nil {
				return fr.regs[pick], true
			}
		}
	}
	// a local variable that is declared later than the point reached by this path (e.g. an early return in front of its
	// declaration): the contract sees the zero value the variable would have
	for _, b := range fr.fn.Blocks {
		for _, in := range b.Instrs {
			if al, ok := in.(*ssa.Alloc); ok && al.Comment == name {
				if _, seen := fr.regs[al]; !seen {
					return x.zeroVal(al.Type().Underlying().(*types.Pointer).Elem()), true
				}
			}
		}
	}
	return Val{}, false
}

var debugNameCache = map[*ssa.Function]map[string][]ssa.Value{}

func (x *Exec) debugNames(fn *ssa.Function) map[string][]ssa.Value {
	if m, ok := debugNameCache[fn]; ok {
		return m
	}
	m := map[string][]ssa.Value{}
	for _, b := range fn.Blocks {
		for _, in := range b.Instrs {
			if d, ok := in.(*ssa.DebugRef); ok && !d.IsAddr {
				if obj := d.Object(); obj != nil {
					m[obj.Name()] = append(m[obj.Name()], d.X)
				}
			}
		}
	}
	debugNameCache[fn] = m
	return m
}

// ---- loops ----

func (x *Exec) loopSpec(fr *Frame, ord int) *LoopSpec {
	if fr.contract == nil {
		return nil
	}
	return fr.contract.Loops[ord]
}

func (x *Exec) loopEnv(st *State, fr *Frame, header *ssa.BasicBlock) *Env {
	env := x.baseEnv(st, fr)
	// iterator ghost variables of map-range loops whose Next is in the header
	extra := map[string]Val{}
	for _, p := range fr.fn.Params {
		if v, ok := fr.regs[p]; ok {
			extra[p.Name()+"0"] = v
		}
	}
	for _, in := range header.Instrs {
		phi, ok := in.(*ssa.Phi)
		if !ok {
			break
		}
		if phi.Comment != "" {
			if v, ok := fr.regs[phi]; ok {
				extra[phi.Comment] = v
			}
		}
	}
	for _, in := range header.Instrs {
		if nx, ok := in.(*ssa.Next); ok {
			if it := st.iters[nx.Iter.(*ssa.Range)]; it != nil {
				_, ks, _ := x.mapInfo(it.Map.T)
				extra["$visited"] = Val{T: nil, K: KScalar, S: it.Visited}
				extra["$start"] = Val{T: nil, K: KScalar, S: it.Start}
				extra["$count"] = Val{T: types.Typ[types.Int], K: KScalar, S: it.Count}
				extra["$map"] = it.Map
				_ = ks
			}
		}
	}
	return env.with(extra)
}

// autoRangeInvariant recognises the SSA shape of `for i := range slice` (phi starting at -1, incremented, compared with a
// length computed before the loop) and yields the obvious bounds -1 <= i and i+1 <= len; checked like any invariant.
func (x *Exec) autoRangeInvariant(st *State, fr *Frame, header *ssa.BasicBlock) string {
	if x.mode != ModeInt {
		return "true"
	}
	for _, in := range header.Instrs {
		phi, ok := in.(*ssa.Phi)
		if !ok {
			break
		}
		if phi.Comment != "rangeindex" {
			continue
		}
		// find t = phi + 1 ; c = t < bound in the header
		for _, in2 := range header.Instrs {
			cmp, ok := in2.(*ssa.BinOp)
			if !ok || cmp.Op != token.LSS {
				continue
			}
			inc, ok := cmp.X.(*ssa.BinOp)
			if !ok || inc.Op != token.ADD || inc.X != ssa.Value(phi) {
				continue
			}
			bound, ok := fr.regs[cmp.Y]
			if !ok {
				// range over an array (or pointer to array): the bound is the constant length
				c, isConst := cmp.Y.(*ssa.Const)
				if !isConst {
					continue
				}
				bound = x.get(st, fr, c)
			}
			pv, ok := fr.regs[phi]
			if !ok {
				continue
			}
			return and(app("<=", "(- 1)", pv.S), app("<=", app("+", pv.S, "1"), bound.S), app("<=", "0", bound.S))
		}
	}
	return "true"
}

func (x *Exec) checkInvariants(st *State, fr *Frame, header *ssa.BasicBlock, ord int, when string) {
	spec := x.loopSpec(fr, ord)
	pos := x.P.pos(firstPos(header))
	if ai := x.autoRangeInvariant(st, fr, header); ai != "true" {
		x.oblige(st, "inv", fmt.Sprintf("loop%d.autorange.%s", ord, when), pos, ai, nil)
	}
	if spec != nil {
		env := x.loopEnv(st, fr, header)
		for i, c := range spec.Invs {
			t, err := x.trClause(env, c)
			if err != nil {
				x.unsupported("%v", err)
			}
			label := c.Label
			if label == "" {
				label = fmt.Sprint(i + 1)
			}
			x.oblige(st, "inv", fmt.Sprintf("loop%d.%s.%s", ord, label, when), pos, t, c.Props)
		}
	}
	// automatic frame invariant: relative to the pre-state of the function under contract, also for the loops of closures
	// and helpers executed in place (their writes are the function's writes)
	if !x.fnModAll {
		ws := x.loopWriteSet(st, fr, header)
		if !ws.all {
			for _, n := range sortedKeys(ws.names) {
				f := x.frameFormula(st, n)
				if f != "true" {
					x.oblige(st, "frame", fmt.Sprintf("loop%d.%s.%s", ord, shortArr(n), when), pos, f, nil)
				}
			}
		}
	}
}

func shortArr(n string) string {
	n = strings.TrimPrefix(n, "fld_")
	return n
}

func firstPos(b *ssa.BasicBlock) (p token.Pos) {
	for _, in := range b.Instrs {
		if in.Pos().IsValid() {
			return in.Pos()
		}
	}
	for _, s := range b.Succs {
		for _, in := range s.Instrs {
			if in.Pos().IsValid() {
				return in.Pos()
			}
		}
	}
	return 0
}

func (x *Exec) havocLoop(st *State, fr *Frame, header *ssa.BasicBlock, ord int) {
	ws := x.loopWriteSet(st, fr, header)
	x.inLoopHavoc = true
	defer func() { x.inLoopHavoc = false }()
	// objects that exist when the loop is entered keep their dynamic type whatever the body allocates
	typStable := func() {}
	if ws.all || ws.names["typ"] {
		oldTyp, preAlloc := x.typArr(st), st.alloc
		typStable = func() {
			_, nt := x.heapHavoc(st, "typ", "(Array Int Int)")
			st.assume(fmt.Sprintf("(forall ((r Int)) (! (=> (<= r %s) (= (select %s r) (select %s r))) :pattern ((select %s r))))", preAlloc, nt, oldTyp, nt))
		}
	}
	if ws.all {
		keep := map[string]string{}
		bounds := map[string]string{}
		for n := range ws.kept {
			if !ws.names[n] {
				keep[n] = x.heapArr(st, n, x.arrSorts[n])
				bounds[n] = x.refBound(st, n)
			}
		}
		x.havocAll(st)
		for n, v := range keep {
			st.heap[n] = v
			st.heapBound[n] = bounds[n]
		}
		// arrays the loop body writes itself lose even the contents of stack locals
		for _, n := range sortedKeys(ws.names) {
			if s := x.arrSorts[n]; s != "" {
				x.heapHavoc(st, n, s)
			}
		}
	} else {
		for _, n := range sortedKeys(ws.names) {
			sort := x.arrSorts[n]
			if sort == "" {
				x.unsupported("internal: unknown sort of heap array %s", n)
			}
			x.heapHavoc(st, n, sort)
		}
	}
	typStable()
	// allocation may have grown (only if some path through the body allocates, itself or through a callee)
	if ws.allocs || ws.names["typ"] {
		na := x.freshConst("alloc", "Int")
		st.assume(app("<=", st.alloc, na))
		st.alloc = na
	}
	// phis
	for _, in := range header.Instrs {
		phi, ok := in.(*ssa.Phi)
		if !ok {
			break
		}
		old := fr.regs[phi]
		nv := x.freshVal(st, phi.Type(), "phi."+phi.Comment)
		copyMetaLoop(&nv, old)
		fr.regs[phi] = nv
	}
	// ghosts that a hook inside the loop may assign
	for n, g := range st.ghost {
		if ws.ghosts == nil || ws.ghosts[n] {
			st.ghost[n] = x.freshVal(st, g.T, "ghost."+n)
		}
	}
	// iterators advanced inside the loop
	li := x.loops(fr.fn)
	for rv, it := range st.iters {
		r, ok := rv.(*ssa.Range)
		if !ok || r.Parent() != fr.fn {
			continue
		}
		used := false
		for bb := range li.body[header] {
			for _, in := range bb.Instrs {
				if nx, ok := in.(*ssa.Next); ok && nx.Iter == rv {
					used = true
				}
			}
		}
		if used {
			_, ks, _ := x.mapInfo(it.Map.T)
			it.Visited = x.freshConst("visited", "(Array "+ks+" Bool)")
			it.Count = x.freshConst("itcount", x.sorts.Idx())
			st.assume(x.idxGe0(it.Count))
		}
	}
	// assume invariants
	st.assume(x.autoRangeInvariant(st, fr, header))
	spec := x.loopSpec(fr, ord)
	if spec != nil {
		env := x.loopEnv(st, fr, header)
		for _, c := range spec.Invs {
			t, err := x.trClause(env, c)
			if err != nil {
				x.unsupported("%v", err)
			}
			st.assume(t)
		}
	} else if x.dry == 0 {
		x.warn("loop %d of %s has no invariant (only the automatic frame is assumed)", ord, fr.fn.Name())
	}
	if !x.fnModAll && !ws.all {
		for _, n := range sortedKeys(ws.names) {
			st.assume(x.frameFormula(st, n))
		}
	}
}

func copyMetaLoop(dst *Val, src Val) {
	// dynamic-type knowledge does not survive a loop head
}

// loopWriteSet discovers, by a dry symbolic run of the loop body, which heap arrays the loop may write.
func (x *Exec) loopWriteSet(st *State, fr *Frame, header *ssa.BasicBlock) *writeSet {
	if ws, ok := x.loopWrites[header]; ok {
		return ws
	}
	li := x.loops(fr.fn)
	// save dry context (nested discovery)
	saveFn, saveBody, saveAcc, saveAll := x.dryFrameFn, x.dryBody, x.dryAcc, x.dryAll
	saveKept, saveKeptSet := x.dryKept, x.dryKeptSet
	saveGhosts := x.dryGhosts
	saveAlloc0, saveAllocs := x.dryAlloc0, x.dryAllocs
	x.dry++
	x.dryFrameFn, x.dryBody, x.dryAcc, x.dryAll = fr.fn, li.body[header], map[string]bool{}, false
	x.dryKept, x.dryKeptSet = nil, false
	x.dryGhosts = map[string]bool{}
	st2, fr2 := st.clone(), fr.clone()
	st2.written = map[string]bool{}
	st2.writtenAll = false
	st2.allKept = nil
	x.dryAlloc0, x.dryAllocs = st2.alloc, false
	fr2.inLoops[header] = true
	// havoc phis so that nothing constant-folds
	for _, in := range header.Instrs {
		phi, ok := in.(*ssa.Phi)
		if !ok {
			break
		}
		fr2.regs[phi] = x.freshVal(st2, phi.Type(), "dry."+phi.Comment)
	}
	// iterators: unconstrained
	for rv, it := range st2.iters {
		_ = rv
		_, ks, _ := x.mapInfo(it.Map.T)
		it.Visited = x.freshConst("dryvisited", "(Array "+ks+" Bool)")
		it.Count = x.freshConst("drycount", x.sorts.Idx())
	}
	func() {
		defer func() {
			x.dry--
		}()
		x.execFrom(st2, fr2, header, x.firstNonPhi(header))
	}()
	ws := &writeSet{names: x.dryAcc, all: x.dryAll, kept: x.dryKept, ghosts: x.dryGhosts, allocs: x.dryAllocs || x.dryAll}
	x.dryFrameFn, x.dryBody, x.dryAcc, x.dryAll = saveFn, saveBody, saveAcc, saveAll
	x.dryAlloc0, x.dryAllocs = saveAlloc0, saveAllocs || (x.dry > 1 && ws.allocs)
	x.dryKept, x.dryKeptSet = saveKept, saveKeptSet
	x.dryGhosts = saveGhosts
	if x.dry > 0 && x.dryGhosts != nil {
		for n := range ws.ghosts {
			x.dryGhosts[n] = true
		}
	}
	// an enclosing dry run must also see these writes
	if x.dry > 0 && x.dryAcc != nil {
		for n := range ws.names {
			x.dryAcc[n] = true
		}
		if ws.all {
			x.dryAll = true
			if !x.dryKeptSet {
				x.dryKeptSet = true
				x.dryKept = map[string]bool{}
				for n := range ws.kept {
					x.dryKept[n] = true
				}
			} else {
				for n := range x.dryKept {
					if !ws.kept[n] {
						delete(x.dryKept, n)
					}
				}
			}
		}
	}
	x.loopWrites[header] = ws
	return ws
}

func (x *Exec) dryStop(st *State) {
	for n := range st.written {
		x.dryAcc[n] = true
	}
	if st.alloc != x.dryAlloc0 {
		x.dryAllocs = true
	}
	if st.writtenAll {
		x.dryAll = true
		kept := st.allKept
		if kept == nil {
			kept = map[string]bool{}
		}
		if !x.dryKeptSet {
			x.dryKeptSet = true
			x.dryKept = map[string]bool{}
			for n := range kept {
				x.dryKept[n] = true
			}
		} else {
			for n := range x.dryKept {
				if !kept[n] {
					delete(x.dryKept, n)
				}
			}
		}
	}
}

// ---- frames ----

// frameFormula: array n differs from its entry version only where the function's modifies clause allows (or at fresh objects).
func (x *Exec) frameFormula(st *State, n string) string {
	if x.fnModAll {
		return "true"
	}
	g := x.fnMods[n]
	if g != nil && g.whole {
		return "true"
	}
	sort := x.arrSorts[n]
	if st.gen != 0 {
		return "false"
	}
	cur := x.heapArr(st, n, sort)
	entry := fmt.Sprintf("%s!g0", n)
	x.decls.Const(entry, sort)
	if cur == entry {
		return "true"
	}
	if strings.HasPrefix(n, "glob_") && !strings.HasPrefix(sort, "(Array Int") {
		return eq(cur, entry)
	}
	if !strings.HasPrefix(sort, "(Array Int ") {
		// global scalar or non-ref-indexed array
		return eq(cur, entry)
	}
	conds := []string{app("<=", "fr!r", "alloc!0")}
	if g != nil {
		for _, idx := range g.except {
			conds = append(conds, not(eq("fr!r", idx[0])))
		}
	}
	return fmt.Sprintf("(forall ((fr!r Int)) (=> %s (= (select %s fr!r) (select %s fr!r))))", and(conds...), cur, entry)
}

// ---- function exit ----

func (x *Exec) finish(st *State, fr *Frame, results []Val) {
	if x.dry > 0 {
		x.dryStop(st)
		return
	}
	if st.infeasible {
		return
	}
	pos := x.curPos
	// vacuity: some path to a return must be satisfiable together with everything assumed along it (callee ensures, hook assumes)
	if x.nExitCovers < 40 {
		x.nExitCovers++
		x.cover(st, "exit", pos)
	}
	env := x.baseEnv(st, fr).with(x.resultVars(fr.fn.Signature, results))
	// in postconditions a parameter name denotes its entry value
	pv := map[string]Val{}
	for _, p := range fr.fn.Params {
		if v, ok := fr.regs[p]; ok {
			pv[p.Name()] = v
		}
	}
	env = env.with(pv)
	for _, u := range x.con.Uses {
		x.applyLemma(st, env, u)
	}
	// entry values of parameters are what contracts talk about (SSA params are immutable)
	for i, c := range x.con.Ensures {
		t, err := x.trClause(env, c)
		if err != nil {
			x.unsupported("%v", err)
		}
		label := c.Label
		if label == "" {
			label = fmt.Sprint(i + 1)
		}
		x.oblige(st, "post", label, pos, t, c.Props)
	}
	for i, wv := range x.con.WritesVia {
		goal := "true"
		for _, b := range st.wvBad {
			if strings.HasPrefix(b, wv.Prefix) {
				goal = "false"
			}
		}
		x.oblige(st, "writesvia", fmt.Sprint(i+1), pos, goal, nil)
	}
	if x.con.NoAlloc {
		x.oblige(st, "frame", "noalloc", pos, eq(st.alloc, "alloc!0"), nil)
	}
	// frame
	if x.con.HasMod || x.con.Pure {
		if st.writtenAll && !x.fnModAll {
			x.oblige(st, "frame", "all", pos, "false", nil)
		} else {
			for _, n := range sortedKeys(st.written) {
				if n == "typ" {
					continue
				}
				f := x.frameFormula(st, n)
				x.oblige(st, "frame", shortArr(n), pos, f, nil)
			}
		}
	}
}


var _ = sort.Strings

func (x *Exec) findLemma(name string) *Lemma {
	for _, l := range x.C.Lemmas {
		if l.Name == name {
			return l
		}
	}
	return nil
}

// applyLemma assumes an instance of a (separately proved) lemma: forall k :: requires ==> ensures.
func (x *Exec) applyLemma(st *State, env *Env, u LemmaUse) {
	lm := x.findLemma(u.Name)
	if lm == nil {
		x.unsupported("%s: unknown lemma %s", u.Pos, u.Name)
	}
	e := env
	if u.Old {
		e = env.inState(x.old)
	}
	vars := map[string]Val{}
	ai := 0
	var qv []QVar
	for _, p := range lm.Params {
		if p.Name == lm.Induction {
			qv = append(qv, p)
			continue
		}
		if ai >= len(u.Args) {
			x.unsupported("%s: too few arguments for lemma %s", u.Pos, u.Name)
		}
		t, err := x.C.ResolveType(x.P, lm.PkgPath, p.Type)
		if err != nil {
			x.unsupported("%s: %v", u.Pos, err)
		}
		v := x.trVal(e, u.Args[ai], u.Pos)
		v = e.coerce(v, t)
		if v.K != KIface {
			v = retype(v, t)
		}
		vars[p.Name] = v
		ai++
	}
	inner := &Env{x: x, st: e.st, old: nil, vars: vars, pkgPath: lm.PkgPath, nq: &x.nfresh}
	var body Expr = lemmaImpl(lm)
	if len(qv) > 0 {
		body = EQuant{Forall: true, Vars: qv, Body: body}
	}
	t, err := x.trClause(inner, Clause{E: body, Src: "lemma " + lm.Name, Pos: u.Pos})
	if err != nil {
		x.unsupported("%v", err)
	}
	st.assume(t)
	x.assumed["lemma "+lm.Name+" (proved separately by its own obligation; induction principle is the meta-rule)"] = true
}

func conj(cs []Clause) Expr {
	var e Expr = EBool{true}
	for i, c := range cs {
		if i == 0 {
			e = c.E
		} else {
			e = EBin{"&&", e, c.E}
		}
	}
	return e
}

func lemmaImpl(lm *Lemma) Expr {
	return EBin{"==>", conj(lm.Requires), conj(lm.Ensures)}
}

// VerifyLemma: requires (and the induction hypothesis for smaller values of the induction variable) entail ensures, in an arbitrary state.
func VerifyLemma(P *Program, C *Contracts, lm *Lemma) (res *FuncResult) {
	con := &Contract{Name: "lemma:" + lm.Name, PkgPath: lm.PkgPath, Props: lm.Props, Trust: lm.Trust, Loops: map[int]*LoopSpec{}, Mode: lm.Mode}
	x := NewExec(P, C, nil, con)
	res = &FuncResult{Name: con.Name, Contract: con, Mode: lm.Mode.String()}
	defer func() {
		if r := recover(); r != nil {
			switch e := r.(type) {
			case unsupported:
				res.Err = e.msg
			case specErr:
				res.Err = "spec error: " + e.msg
			default:
				res.Err = fmt.Sprintf("engine panic: %v\n%s", r, debug.Stack())
			}
		}
		res.Obs = x.obs
	}()
	st := &State{heap: map[string]string{}, ghost: map[string]Val{}, written: map[string]bool{},
		knownTag: map[string]types.Type{}, iters: map[ssa.Value]*IterState{}}
	x.decls.Const("alloc!0", "Int")
	st.alloc = "alloc!0"
	st.assume(app("<=", "0", "alloc!0"))
	vars := map[string]Val{}
	for _, p := range lm.Params {
		t, err := C.ResolveType(P, lm.PkgPath, p.Type)
		if err != nil {
			x.unsupported("%s: %v", lm.Pos, err)
		}
		vars[p.Name] = x.freshVal(st, t, "l."+p.Name)
	}
	env := &Env{x: x, st: st, vars: vars, pkgPath: lm.PkgPath, nq: &x.nfresh}
	for _, c := range lm.Requires {
		t, err := x.trClause(env, c)
		if err != nil {
			x.unsupported("%v", err)
		}
		st.assume(t)
	}
	if lm.Induction != "" {
		iv := vars[lm.Induction]
		// IH: forall m :: 0 <= m < k ==> (requires ==> ensures)[k := m]
		var ptype string
		for _, p := range lm.Params {
			if p.Name == lm.Induction {
				ptype = p.Type
			}
		}
		m := "ih_" + lm.Induction
		bodyVars := map[string]Val{}
		ih := EQuant{Forall: true, Vars: []QVar{{m, ptype}}, Body: EBin{"==>",
			EBin{"&&", EBin{"<=", ENum{bigZero}, EIdent{m}}, EBin{"<", EIdent{m}, fixedVal{iv}}},
			substIdent(lemmaImpl(lm), lm.Induction, m)}}
		_ = bodyVars
		t, err := x.trClause(env, Clause{E: ih, Src: "induction hypothesis", Pos: lm.Pos})
		if err != nil {
			x.unsupported("%v", err)
		}
		st.assume(t)
	}
	x.cover(st, "requires", lm.Pos)
	for i, c := range lm.Ensures {
		t, err := x.trClause(env, c)
		if err != nil {
			x.unsupported("%v", err)
		}
		label := c.Label
		if label == "" {
			label = fmt.Sprint(i + 1)
		}
		x.oblige(st, "lemma", label, c.Pos, t, c.Props)
	}
	return res
}

// substIdent renames identifier from -> to in an expression.
func substIdent(e Expr, from, to string) Expr {
	switch n := e.(type) {
	case EIdent:
		if n.Name == from {
			return EIdent{to}
		}
		return n
	case EBin:
		return EBin{n.Op, substIdent(n.L, from, to), substIdent(n.R, from, to)}
	case EUn:
		return EUn{n.Op, substIdent(n.X, from, to)}
	case EQuant:
		for _, v := range n.Vars {
			if v.Name == from {
				return n
			}
		}
		return EQuant{n.Forall, n.Vars, substIdent(n.Body, from, to)}
	case ECall:
		args := make([]Expr, len(n.Args))
		for i, a := range n.Args {
			args[i] = substIdent(a, from, to)
		}
		return ECall{n.Fn, args}
	case ESel:
		return ESel{substIdent(n.X, from, to), n.Name}
	case EIndex:
		return EIndex{substIdent(n.X, from, to), substIdent(n.I, from, to)}
	case ESlice:
		var lo, hi Expr
		if n.Lo != nil {
			lo = substIdent(n.Lo, from, to)
		}
		if n.Hi != nil {
			hi = substIdent(n.Hi, from, to)
		}
		return ESlice{substIdent(n.X, from, to), lo, hi}
	case ECast:
		return ECast{substIdent(n.X, from, to), n.T}
	case EDeref:
		return EDeref{substIdent(n.X, from, to)}
	case EIte:
		return EIte{substIdent(n.C, from, to), substIdent(n.A, from, to), substIdent(n.B, from, to)}
	}
	return e
}

var bigZero = big.NewInt(0)

// closesChannel reports where fn or one of its function literals calls close() on the variable named ch.
func closesChannel(fn *ssa.Function, ch string) string {
	fns := []*ssa.Function{fn}
	for i := 0; i < len(fns); i++ {
		fns = append(fns, fns[i].AnonFuncs...)
	}
	named := func(v ssa.Value) bool {
		if ch == "*" {
			// any channel
			return true
		}
		if refs := v.Referrers(); refs != nil {
			for _, r := range *refs {
				if d, ok := r.(*ssa.DebugRef); ok && d.Object() != nil && d.Object().Name() == ch {
					return true
				}
			}
		}
		for depth := 0; depth < 4; depth++ {
			switch n := v.(type) {
			case *ssa.Parameter:
				return n.Name() == ch
			case *ssa.FreeVar:
				return n.Name() == ch
			case *ssa.Alloc:
				return n.Comment == ch
			case *ssa.UnOp:
				v = n.X
				continue
			case *ssa.MakeChan:
				// find a store of this channel into a named cell
				for _, r := range *n.Referrers() {
					if s, ok := r.(*ssa.Store); ok {
						if a, ok := s.Addr.(*ssa.Alloc); ok && a.Comment == ch {
							return true
						}
					}
				}
				return false
			case *ssa.Phi:
				return n.Comment == ch
			}
			return false
		}
		return false
	}
	for _, f := range fns {
		for _, b := range f.Blocks {
			for _, in := range b.Instrs {
				c, ok := in.(*ssa.Call)
				if !ok {
					continue
				}
				if bi, ok := c.Call.Value.(*ssa.Builtin); ok && bi.Name() == "close" && len(c.Call.Args) == 1 && named(c.Call.Args[0]) {
					return f.Prog.Fset.Position(c.Pos()).String()
				}
			}
		}
	}
	return ""
}
