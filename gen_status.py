#!/usr/bin/env python3
"""Refresh the last two columns (functions / obligation groups / instances, quick wall) of the status table in DESIGN.md §0.1
from the evidence files of the last clean quick run."""
import json, re, os
p = '/verif/DESIGN.md'
lines = open(p).read().split('\n')
out = []
inside = False
for l in lines:
    if l.startswith('### 0.1'):
        inside = True
    elif l.startswith('### 0.2'):
        inside = False
    m = inside and re.match(r'^\| (C\d\d) \| (claimed[^|]*) \|', l)
    if m:
        ev = '/verif/evidence/%s.json' % m.group(1)
        if os.path.exists(ev):
            e = json.load(open(ev))
            if e.get('tier') == 'quick':
                c = e['coverage']
                fns = c['functions_under_contract']
                nf = len(fns) if isinstance(fns, list) else fns
                ob = c['obligations']
                kn = c.get('obligations_including_known_findings', ob) - ob
                obs = '%d%s' % (ob, '(+%d known)' % kn if kn else '')
                cols = l.split(' | ')
                cols[-2] = '%d / %s / %d' % (nf, obs, c['instances'])
                cols[-1] = '%d s |' % round(e['wall_s'])
                l = ' | '.join(cols)
    out.append(l)
open(p, 'w').write('\n'.join(out))
