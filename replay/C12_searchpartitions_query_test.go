package storage

import (
	"context"
	"os"
	"os/exec"
	"sync"
	"testing"

	"github.com/marekgalovic/anndb/cluster"
	"github.com/marekgalovic/anndb/index"
	"github.com/marekgalovic/anndb/index/space"
	"github.com/marekgalovic/anndb/math"
	pb "github.com/marekgalovic/anndb/protobuf"
	uuid "github.com/satori/go.uuid"
)

func verifLocalSearchDataset() (*Dataset, uuid.UUID) {
	conn, _ := cluster.NewConn(1, ":0", "")
	d := &Dataset{
		id:            uuid.NewV4(),
		meta:          &pb.Dataset{Dimension: 2, PartitionCount: 1},
		clusterConn:   conn,
		partitionsMu:  &sync.RWMutex{},
		partitionsMap: map[uuid.UUID]*partition{},
	}
	pid := uuid.NewV4()
	p := &partition{id: pid, meta: &pb.Partition{Id: pid.Bytes(), NodeIds: []uint64{1}}, dataset: d, index: index.NewHnsw(2, space.NewEuclidean())}
	for i := 0; i < 8; i++ {
		p.index.Insert(uuid.NewV4(), math.Vector{float32(i), 1}, nil, 0)
	}
	d.partitions = []*partition{p}
	d.partitionsMap[pid] = p
	return d, pid
}

// Replay of (*storage.Dataset).SearchPartitions/post#query-checked (C12: "wrong or zero dimensions, empty vectors ... receives
// either a correct response or an error. It never terminates ... the server process"): the SearchPartitions RPC of the Search
// service handed its query to the index unchecked. An empty query makes the distance kernel wrapper evaluate &a[0] in the
// partition's search goroutine: "panic: runtime error: index out of range [0] with length 0" - the whole process exits.
// (A query longer than the dimension makes the kernel read past the end of every stored vector.)
// The call that can kill the process runs in a child process; the parent only looks at how the child ended.
func TestVerifReplayC12SearchPartitionsEmptyQuery(t *testing.T) {
	if os.Getenv("VERIF_REPLAY_CHILD") == "1" {
		d, pid := verifLocalSearchDataset()
		_, err := d.SearchPartitions(context.Background(), []uuid.UUID{pid}, math.Vector{}, 3)
		if err == nil {
			os.Exit(3)
		}
		os.Exit(0)
	}
	cmd := exec.Command(os.Args[0], "-test.run=TestVerifReplayC12SearchPartitionsEmptyQuery")
	cmd.Env = append(os.Environ(), "VERIF_REPLAY_CHILD=1")
	out, err := cmd.CombinedOutput()
	if err != nil {
		n := len(out)
		if n > 600 {
			n = 600
		}
		t.Fatalf("SearchPartitions with an empty query did not answer with an error: the process ended with %v\n%s", err, out[:n])
	}
	// wrong, non-zero length and non-finite components are refused as well; a well-formed query is answered
	d, pid := verifLocalSearchDataset()
	for _, q := range []math.Vector{{1}, {1, 2, 3}} {
		if _, err := d.SearchPartitions(context.Background(), []uuid.UUID{pid}, q, 3); err != DimensionMissmatchErr {
			t.Errorf("query of length %d against dimension 2: got %v", len(q), err)
		}
	}
	res, err := d.SearchPartitions(context.Background(), []uuid.UUID{pid}, math.Vector{0, 1}, 3)
	if err != nil || len(res) != 3 {
		t.Errorf("well-formed query: %v %v", res, err)
	}
}
