package storage

import (
	"context"
	"testing"

	"github.com/marekgalovic/anndb/cluster"
	pb "github.com/marekgalovic/anndb/protobuf"
	"github.com/marekgalovic/anndb/storage/raft"
	uuid "github.com/satori/go.uuid"
)

type verifApplyGroup struct{ process raft.ProcessFn }

func (g *verifApplyGroup) RegisterProcessFn(fn raft.ProcessFn) error         { g.process = fn; return nil }
func (g *verifApplyGroup) RegisterProcessSnapshotFn(fn raft.ProcessFn) error { return nil }
func (g *verifApplyGroup) RegisterSnapshotFn(fn raft.SnapshotFn) error       { return nil }
func (g *verifApplyGroup) LeaderId() uint64                                  { return 1 }
func (g *verifApplyGroup) Propose(ctx context.Context, data []byte) error {
	go g.process(data)
	return nil
}

// Replay of the C12 obligations pre@(*storage.Dataset).getPartitionForId#partitions / rand.Intn precondition:
// "zero partition or replica counts" in a Create request must be answered with an error. Accepted, the dataset is replicated
// into the catalogue and the first write to it divides by zero in the request handler.
func TestVerifReplayC12CreateZeroCounts(t *testing.T) {
	conn, _ := cluster.NewConn(1, ":0", "")
	conn.AddNode(1, ":0")
	alloc := NewAllocator(conn)
	defer alloc.Stop()
	dm, err := NewDatasetManager(&verifApplyGroup{}, nil, nil, conn, alloc)
	if err != nil {
		t.Fatal(err)
	}
	ds, err := dm.Create(context.Background(), &pb.Dataset{Dimension: 2, PartitionCount: 0, ReplicationFactor: 1})
	if err != nil {
		return // rejected: fine
	}
	func() {
		defer func() {
			if r := recover(); r != nil {
				t.Fatalf("dataset with partition_count=0 was accepted; the first Insert then panics: %v", r)
			}
		}()
		ds.Insert(context.Background(), uuid.NewV4(), []float32{1, 2}, nil)
	}()
	t.Fatal("dataset with partition_count=0 was accepted")
}

func TestVerifReplayC12CreateZeroReplicas(t *testing.T) {
	conn, _ := cluster.NewConn(1, ":0", "")
	conn.AddNode(1, ":0")
	alloc := NewAllocator(conn)
	defer alloc.Stop()
	dm, err := NewDatasetManager(&verifApplyGroup{}, nil, nil, conn, alloc)
	if err != nil {
		t.Fatal(err)
	}
	if _, err := dm.Create(context.Background(), &pb.Dataset{Dimension: 0, PartitionCount: 1, ReplicationFactor: 1}); err == nil {
		t.Fatal("dataset with dimension 0 was accepted (an empty vector then reaches the distance kernels at apply time)")
	}
}
