package cluster

import "testing"

// Replay of (*cluster.Conn).AddNode/post#announced-address (C20): after a join is applied, the member is listed under the
// address it announced - also when the node was known before under another address (restart on a new host/port).
func TestVerifReplayC20RejoinWithNewAddress(t *testing.T) {
	c, err := NewConn(1, ":6000", "")
	if err != nil {
		t.Fatal(err)
	}
	c.AddNode(2, "10.0.0.2:6000")
	c.AddNode(3, "10.0.0.3:6000")
	// node 2 comes back on another address and its join is applied
	c.AddNode(2, "10.0.0.9:7000")
	if got := c.Nodes()[2]; got != "10.0.0.9:7000" {
		t.Fatalf("node 2 re-joined announcing 10.0.0.9:7000 but is still listed as %q", got)
	}
	if got := c.Nodes()[3]; got != "10.0.0.3:6000" {
		t.Fatalf("node 3 disturbed: %q", got)
	}
	if len(c.NodeIds()) != 2 {
		t.Fatalf("node ids: %v", c.NodeIds())
	}
}
