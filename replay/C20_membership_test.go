package cluster

import "testing"

// Replay of (*cluster.Conn).AddNode/post#announced-address (C20): after a join is applied, the member is listed under the
// address it announced - also when the node was known before under another address (restart on a new host/port).
func TestVerifReplayC20RejoinWithNewAddress(t *testing.T) {
	c, err := NewConn(1, ":6000", "")
	if err != nil {
		t.Fatal(err)
	}
	c.AddNode(2, "10.0.0.2:6000")
	c.AddNode(3, "10.0.0.3:6000")
	// node 2 comes back on another address and its join is applied
	c.AddNode(2, "10.0.0.9:7000")
	if got := c.Nodes()[2]; got != "10.0.0.9:7000" {
		t.Fatalf("node 2 re-joined announcing 10.0.0.9:7000 but is still listed as %q", got)
	}
	if got := c.Nodes()[3]; got != "10.0.0.3:6000" {
		t.Fatalf("node 3 disturbed: %q", got)
	}
	if len(c.NodeIds()) != 2 {
		t.Fatalf("node ids: %v", c.NodeIds())
	}
}

// Replay of (*cluster.Conn).AddNode/post#no-address-keeps-known-address (C20): the first node's bootstrap membership entry carries
// no address (etcd Peer without Context). Applying it must not erase the address the node is already known under - the node
// registers itself at start-up, and joining members are told that address - or the bootstrap node becomes unreachable.
func TestVerifReplayC20EntryWithoutAddressKeepsKnownAddress(t *testing.T) {
	c, err := NewConn(1, ":6000", "")
	if err != nil {
		t.Fatal(err)
	}
	c.AddNode(1, ":6000") // raft.NewTransport registers the node itself
	c.AddNode(1, "")      // the bootstrap ConfChangeAddNode of node 1 is applied (empty Context)
	if got := c.Nodes()[1]; got != ":6000" {
		t.Fatalf("node 1 is known under :6000; a membership entry without an address left it listed as %q", got)
	}
	c.AddNode(7, "") // a member known only from an entry without address is still listed
	if _, ok := c.Nodes()[7]; !ok {
		t.Fatalf("node 7 not listed")
	}
	c.AddNode(7, "10.0.0.7:6000") // and takes the first address announced for it
	if got := c.Nodes()[7]; got != "10.0.0.7:6000" {
		t.Fatalf("node 7 announced 10.0.0.7:6000, listed as %q", got)
	}
}
