package raft

import (
	"io/ioutil"
	"os"
	"testing"
	"time"

	"github.com/marekgalovic/anndb/cluster"
	"github.com/marekgalovic/anndb/storage/wal"

	"github.com/coreos/etcd/raft/raftpb"
	badger "github.com/dgraph-io/badger/v2"
	uuid "github.com/satori/go.uuid"
)

// Replay of startRaftNode/pre@raft.StartNode#bootstrap-entry-carries-address (C20): the first node bootstraps the zero group.
// Its own membership entry is the only durable record of its address: a member that joined later and restarts rebuilds its
// address book by replaying the log (Server.setup -> zeroGroup.Start). With an entry that carries no address that member
// lists the first node under the empty address and cannot reach it any more.
func TestVerifReplayC20BootstrapEntryCarriesAddress(t *testing.T) {
	dir, err := ioutil.TempDir("", "verif-replay")
	if err != nil {
		t.Fatal(err)
	}
	defer os.RemoveAll(dir)
	db, err := badger.Open(badger.DefaultOptions(dir).WithLogger(nil))
	if err != nil {
		t.Fatal(err)
	}
	defer db.Close()
	w := wal.NewBadgerWAL(db, uuid.Nil)
	connA, _ := cluster.NewConn(1, ":7001", "")
	trA := NewTransport(1, ":7001", connA)
	// what Server.setup does on the first node of a cluster: getZeroNodeIds() = [own id]
	g, err := NewRaftGroup(uuid.Nil, []uint64{1}, w, trA)
	if err != nil {
		t.Fatal(err)
	}
	defer g.Stop()
	var boot *raftpb.Entry
	select {
	case rd := <-g.raft.Ready():
		for i := range rd.Entries {
			if rd.Entries[i].Type == raftpb.EntryConfChange {
				boot = &rd.Entries[i]
			}
		}
	case <-time.After(3 * time.Second):
		t.Fatal("no Ready")
	}
	if boot == nil {
		t.Fatal("no bootstrap membership entry")
	}
	// a member (node 2) that joined later restarts and replays that entry into its own, so far empty, address book
	connB, _ := cluster.NewConn(2, ":7002", "")
	trB := NewTransport(2, ":7002", connB)
	replayer := &RaftGroup{id: uuid.Nil, transport: trB, raft: g.raft}
	var cc raftpb.ConfChange
	if err := cc.Unmarshal(boot.Data); err != nil {
		t.Fatal(err)
	}
	if cc.Type == raftpb.ConfChangeAddNode {
		replayer.transport.addNodeAddress(cc.NodeID, string(cc.Context)) // the zero-group branch of processConfChange
	}
	if got := connB.Nodes()[1]; got != ":7001" {
		t.Fatalf("node 1 announced :7001; a member that rebuilds its address book from the log lists it as %q", got)
	}
}
