package index

import (
	"context"
	goMath "math"
	"math/rand"
	"testing"

	"github.com/marekgalovic/anndb/index/space"

	uuid "github.com/satori/go.uuid"
)

func verifFiniteAscending(r SearchResult) (nan bool, disorder bool) {
	for i := range r {
		if goMath.IsNaN(float64(r[i].Score)) {
			nan = true
		}
	}
	for i := 1; i < len(r); i++ {
		a, b := r[i-1].Score, r[i].Score
		if !goMath.IsNaN(float64(a)) && !goMath.IsNaN(float64(b)) && b < a {
			disorder = true
		}
	}
	return
}

// Replay of pre@(*utils.priorityQueue).Push#item (C01, C12: "!isnan(item.priority)" at the index's call sites; the metric is
// the only source of priorities). A cosine dataset that stores a zero vector - a request any client can send - gets NaN
// distances to it; NaN cannot be ordered, the heaps of the beam search lose their order, and searches for OTHER items come back
// out of order (and miss near items). No stored vector may make the metric return NaN.
func TestVerifReplayC01ZeroVectorUnderCosine(t *testing.T) {
	bad, nans := 0, 0
	for trial := 0; trial < 100; trial++ {
		rnd := rand.New(rand.NewSource(int64(trial)))
		ix := NewHnsw(4, space.NewCosine())
		for i := 0; i < 40; i++ {
			v := make([]float32, 4)
			if i%5 != 0 { // every fifth item is the zero vector
				for j := range v {
					v[j] = rnd.Float32()*2 - 1
				}
			}
			ix.Insert(uuid.NewV4(), v, nil, ix.RandomLevel())
		}
		q := []float32{rnd.Float32(), rnd.Float32(), rnd.Float32(), rnd.Float32()}
		res, err := ix.Search(context.Background(), q, 10)
		if err != nil {
			t.Fatal(err)
		}
		nan, disorder := verifFiniteAscending(res)
		if nan {
			nans++
		}
		if disorder {
			bad++
		}
	}
	if bad > 0 || nans > 0 {
		t.Fatalf("cosine dataset holding zero vectors: %d of 100 searches returned scores out of order, %d returned NaN scores", bad, nans)
	}
}
