package storage

import (
	"context"
	"io/ioutil"
	"os"
	"sync"
	"testing"
	"time"

	"github.com/marekgalovic/anndb/cluster"
	pb "github.com/marekgalovic/anndb/protobuf"
	"github.com/marekgalovic/anndb/storage/raft"
	badger "github.com/dgraph-io/badger/v2"
	uuid "github.com/satori/go.uuid"
)

// Replay of (*storage.Dataset).Insert/post#unreachable-owner (and Update, Remove) - C11:
// when the owning node cannot be reached the write must return an error, never success.
func TestVerifReplayC11UnreachableOwner(t *testing.T) {
	conn, _ := cluster.NewConn(1, ":0", "")
	pid := uuid.NewV4()
	d := &Dataset{
		id:                   uuid.NewV4(),
		meta:                 &pb.Dataset{Dimension: 2, PartitionCount: 1},
		clusterConn:          conn,
		partitionsMu:         &sync.RWMutex{},
		dataManagerClients:   map[uint64]pb.DataManagerClient{},
		dataManagerClientsMu: &sync.RWMutex{},
	}
	// the only partition lives on node 7, whose address this node does not know
	d.partitions = []*partition{{id: pid, meta: &pb.Partition{Id: pid.Bytes(), NodeIds: []uint64{7}}, dataset: d}}
	if err := d.Insert(context.Background(), uuid.NewV4(), []float32{1, 2}, nil); err == nil {
		t.Fatalf("Insert returned success although the owner of the item is unreachable (nothing was stored anywhere)")
	}
	if err := d.Update(context.Background(), uuid.NewV4(), []float32{1, 2}, nil); err == nil {
		t.Fatalf("Update returned success although the owner is unreachable")
	}
	if err := d.Remove(context.Background(), uuid.NewV4()); err == nil {
		t.Fatalf("Remove returned success although the owner is unreachable")
	}
}

// a raft.Group whose Propose commits and applies the entry before it returns (apply wins the race with the proposer)
type verifSyncGroup struct {
	process raft.ProcessFn
}

func (g *verifSyncGroup) RegisterProcessFn(fn raft.ProcessFn) error         { g.process = fn; return nil }
func (g *verifSyncGroup) RegisterProcessSnapshotFn(fn raft.ProcessFn) error { return nil }
func (g *verifSyncGroup) RegisterSnapshotFn(fn raft.SnapshotFn) error       { return nil }
func (g *verifSyncGroup) LeaderId() uint64                                  { return 1 }
func (g *verifSyncGroup) Propose(ctx context.Context, data []byte) error    { return g.process(data) }

// Replay of (*storage.DatasetManager).Create/pre@(*utils.Notificator).Create#capacity (also partition.proposeAndWaitForCommit) - C11:
// the outcome of an applied proposal must reach its proposer whatever the relative timing of apply and proposer.
func TestVerifReplayC11OutcomeDelivered(t *testing.T) {
	conn, _ := cluster.NewConn(1, ":0", "")
	conn.AddNode(1, ":0")
	alloc := NewAllocator(conn)
	defer alloc.Stop()
	dir, _ := ioutil.TempDir("", "verif-replay")
	defer os.RemoveAll(dir)
	db, err := badger.Open(badger.DefaultOptions(dir).WithLogger(nil))
	if err != nil {
		t.Fatal(err)
	}
	defer db.Close()
	dm, err := NewDatasetManager(&verifSyncGroup{}, db, raft.NewTransport(1, ":0", conn), conn, alloc)
	if err != nil {
		t.Fatal(err)
	}
	start := time.Now()
	ds, err := dm.Create(context.Background(), &pb.Dataset{Dimension: 2, PartitionCount: 1, ReplicationFactor: 1})
	if err != nil {
		n, _ := dm.List(context.Background(), false)
		t.Fatalf("Create failed after %v with %q although the entry was committed and applied (%d dataset(s) now exist): the outcome was dropped because the proposer was not yet receiving", time.Since(start), err, len(n))
	}
	if ds == nil {
		t.Fatal("nil dataset")
	}
}
