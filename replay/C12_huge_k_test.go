package storage

import (
	"context"
	"os"
	"os/exec"
	"strings"
	"sync"
	"syscall"
	"testing"

	"github.com/marekgalovic/anndb/cluster"
	"github.com/marekgalovic/anndb/index"
	"github.com/marekgalovic/anndb/index/space"
	pb "github.com/marekgalovic/anndb/protobuf"
	uuid "github.com/satori/go.uuid"
)

// Replay of (*storage.Dataset).Search/alloc#proportional (and index.Hnsw.Search -> searchLevel) - C12.
// A Search request with k = 4294967295 (any value of the uint32 field is a well-typed request) on a dataset holding three
// items: the collector pre-sizes its result with capacity k*nodes (137 GB of items) and the index pre-sizes its visited
// set with k*mMax0 entries. The Go runtime cannot satisfy either and aborts the whole process with the unrecoverable
// "fatal error: out of memory". The child process below runs the request under a 4 GiB address-space limit (so that the
// outcome does not depend on the machine's overcommit settings); the parent reports how it ended.
func TestVerifReplayC12HugeK(t *testing.T) {
	if os.Getenv("VERIF_C12_CHILD") == "1" {
		lim := &syscall.Rlimit{Cur: 4 << 30, Max: 4 << 30}
		syscall.Setrlimit(syscall.RLIMIT_AS, lim)
		conn, _ := cluster.NewConn(1, ":0", "")
		pid := uuid.NewV4()
		d := &Dataset{
			id: uuid.NewV4(), meta: &pb.Dataset{Dimension: 2, PartitionCount: 1, ReplicationFactor: 1}, clusterConn: conn,
			partitionsMu: &sync.RWMutex{}, searchClients: map[uint64]pb.SearchClient{}, searchClientsMu: &sync.RWMutex{},
			dataManagerClients: map[uint64]pb.DataManagerClient{}, dataManagerClientsMu: &sync.RWMutex{},
		}
		p := &partition{id: pid, meta: &pb.Partition{Id: pid.Bytes(), NodeIds: []uint64{1}}, dataset: d, index: index.NewHnsw(2, space.NewEuclidean())}
		d.partitions = []*partition{p}
		d.partitionsMap = map[uuid.UUID]*partition{pid: p}
		for i := 0; i < 3; i++ {
			p.index.Insert(uuid.NewV4(), []float32{float32(i), 1}, nil, 0)
		}
		res, err := d.Search(context.Background(), []float32{0, 0}, uint(uint32(4294967295)))
		if err != nil {
			os.Stdout.WriteString("CHILD-ERROR " + err.Error() + "\n")
			return
		}
		if len(res) != 3 {
			os.Stdout.WriteString("CHILD-WRONG-RESULT\n")
			return
		}
		os.Stdout.WriteString("CHILD-OK 3 results\n")
		return
	}
	cmd := exec.Command(os.Args[0], "-test.run", "^TestVerifReplayC12HugeK$")
	cmd.Env = append(os.Environ(), "VERIF_C12_CHILD=1")
	out, err := cmd.CombinedOutput()
	s := string(out)
	switch {
	case strings.Contains(s, "CHILD-OK"), strings.Contains(s, "CHILD-ERROR"):
		return // answered (with the three items, or with an error): the property holds
	default:
		first := s
		if i := strings.Index(s, "\n\n"); i > 0 {
			first = s[:i]
		}
		t.Fatalf("Search with k=4294967295 on a 3-item dataset took the server process down (%v):\n%s", err, first)
	}
}
