package storage

import (
	"context"
	"sync"
	"testing"

	"github.com/marekgalovic/anndb/cluster"
	"github.com/marekgalovic/anndb/index"
	"github.com/marekgalovic/anndb/index/space"
	pb "github.com/marekgalovic/anndb/protobuf"
	uuid "github.com/satori/go.uuid"
)

// Replay of (*storage.partition).randomNodeId/nopanic and (*storage.Dataset).getSearchQueryNodes/nopanic - C12.
// State: a dataset one of whose partitions is hosted by no node any more (replication factor 1 and its node left the
// cluster: the allocator proposes removePartitionNode for every partition of a leaving node, so the list becomes empty).
// Any client Search / Insert / Update / Remove / batch write on that dataset must answer with an error; instead
// rand.Intn(0) panics in the request goroutine, which gRPC does not recover - the server process dies.
func verifDatasetWithoutNodes() *Dataset {
	conn, _ := cluster.NewConn(1, ":0", "")
	pid := uuid.NewV4()
	d := &Dataset{
		id:                   uuid.NewV4(),
		meta:                 &pb.Dataset{Dimension: 2, PartitionCount: 1, ReplicationFactor: 1},
		clusterConn:          conn,
		partitionsMu:         &sync.RWMutex{},
		dataManagerClients:   map[uint64]pb.DataManagerClient{},
		dataManagerClientsMu: &sync.RWMutex{},
		searchClients:        map[uint64]pb.SearchClient{},
		searchClientsMu:      &sync.RWMutex{},
	}
	p := &partition{id: pid, meta: &pb.Partition{Id: pid.Bytes(), NodeIds: []uint64{}}, dataset: d, index: index.NewHnsw(2, space.NewEuclidean())}
	d.partitions = []*partition{p}
	d.partitionsMap = map[uuid.UUID]*partition{pid: p}
	return d
}

func verifNoPanic(t *testing.T, what string, f func() error) {
	defer func() {
		if r := recover(); r != nil {
			t.Errorf("%s on a dataset whose partition has no nodes: PANIC %v (a gRPC handler goroutine would take the server process down)", what, r)
		}
	}()
	if err := f(); err == nil {
		t.Errorf("%s on a dataset whose partition has no nodes returned success", what)
	}
}

func TestVerifReplayC12PartitionWithoutNodes(t *testing.T) {
	ctx := context.Background()
	verifNoPanic(t, "Search", func() error { _, err := verifDatasetWithoutNodes().Search(ctx, []float32{1, 2}, 3); return err })
	verifNoPanic(t, "Insert", func() error { return verifDatasetWithoutNodes().Insert(ctx, uuid.NewV4(), []float32{1, 2}, nil) })
	verifNoPanic(t, "Update", func() error { return verifDatasetWithoutNodes().Update(ctx, uuid.NewV4(), []float32{1, 2}, nil) })
	verifNoPanic(t, "Remove", func() error { return verifDatasetWithoutNodes().Remove(ctx, uuid.NewV4()) })
}
