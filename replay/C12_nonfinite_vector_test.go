package storage

import (
	goMath "math"
	"testing"

	"github.com/marekgalovic/anndb/math"
	pb "github.com/marekgalovic/anndb/protobuf"
)

// Replay of (*storage.Dataset).checkDimension/post#finite (C12: "non-finite numbers ... receive either a correct response or an
// error"): a vector with a NaN or infinite component makes every metric return NaN (Inf - Inf, Inf/Inf), which the index's heaps
// cannot order - stored once, it disturbs the answers about other items on every replica. The request boundary (the check every
// vector-carrying path goes through before anything is proposed or searched) has to refuse it.
func TestVerifReplayC12NonFiniteVectorRefused(t *testing.T) {
	d := &Dataset{meta: &pb.Dataset{Dimension: 3}}
	inf := float32(goMath.Inf(1))
	nan := float32(goMath.NaN())
	for _, v := range []math.Vector{{1, nan, 0}, {inf, 0, 0}, {0, 0, -inf}} {
		v := v
		if err := d.checkDimension(&v); err == nil {
			t.Fatalf("vector %v accepted", v)
		}
	}
	ok := math.Vector{1, -2, 3.5}
	if err := d.checkDimension(&ok); err != nil {
		t.Fatalf("finite vector refused: %v", err)
	}
	short := math.Vector{1, 2}
	if err := d.checkDimension(&short); err != DimensionMissmatchErr {
		t.Fatalf("wrong dimension: got %v", err)
	}
}
