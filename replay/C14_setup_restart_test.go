package anndb

import (
	"io/ioutil"
	"os"
	"path"
	"testing"

	pb "github.com/marekgalovic/anndb/protobuf"
	"github.com/marekgalovic/anndb/storage/wal"

	"github.com/coreos/etcd/raft/raftpb"
	badger "github.com/dgraph-io/badger/v2"
	"github.com/golang/protobuf/proto"
	uuid "github.com/satori/go.uuid"
)

// Replay of (*anndb.Server).setup/order#register-before-start (C14 "survives restart"):
// a node restarts on a data directory whose zero-group log has been compacted into a snapshot that holds the catalogue.
// Server.setup must come up; with zeroGroup.Start() placed before the catalogue registers it dereferences a nil proxy.
func TestVerifReplayC14SetupAfterCompaction(t *testing.T) {
	dir, err := ioutil.TempDir("", "verif-replay")
	if err != nil {
		t.Fatal(err)
	}
	defer os.RemoveAll(dir)
	// state left behind by an earlier life of node 1
	db, err := badger.Open(badger.LSMOnlyOptions(path.Join(dir, "anndb")).WithLogger(nil))
	if err != nil {
		t.Fatal(err)
	}
	if err := wal.SetBadgerRaftId(db, 1); err != nil {
		t.Fatal(err)
	}
	w := wal.NewBadgerWAL(db, uuid.Nil)
	dmSnap, _ := proto.Marshal(&pb.DatasetManagerSnapshot{})
	data, _ := proto.Marshal(&pb.SharedGroupSnapshot{ProxySnapshots: map[string][]byte{"datasets": dmSnap}})
	if err := w.Save(raftpb.HardState{Term: 1, Commit: 2}, []raftpb.Entry{{Index: 1, Term: 1}, {Index: 2, Term: 1}}, raftpb.Snapshot{}); err != nil {
		t.Fatal(err)
	}
	if _, err := w.CreateSnapshot(2, &raftpb.ConfState{Nodes: []uint64{1}}, data); err != nil {
		t.Fatal(err)
	}
	db.Close()

	s := NewServer(&Config{RaftNodeId: 1, DataDir: dir, Port: "0", DoNotJoinCluster: true})
	func() {
		defer func() {
			if r := recover(); r != nil {
				t.Fatalf("Server.setup on a restarted node with a compacted zero-group log: %v", r)
			}
		}()
		if err := s.setup(); err != nil {
			t.Fatalf("setup: %v", err)
		}
	}()
	s.Stop()
}
