package storage

import (
	"context"
	"io/ioutil"
	"os"
	"sync"
	"testing"
	"time"

	"github.com/marekgalovic/anndb/cluster"
	pb "github.com/marekgalovic/anndb/protobuf"
	"github.com/marekgalovic/anndb/storage/raft"

	badger "github.com/dgraph-io/badger/v2"
	uuid "github.com/satori/go.uuid"
)

// a real single-node partition: Badger WAL, etcd raft group with this node as its only peer, ready loop running
func verifLivePartition(t *testing.T, dimension uint32) (*Dataset, *partition, func()) {
	dir, err := ioutil.TempDir("", "verif-replay")
	if err != nil {
		t.Fatal(err)
	}
	db, err := badger.Open(badger.DefaultOptions(dir).WithLogger(nil))
	if err != nil {
		t.Fatal(err)
	}
	conn, _ := cluster.NewConn(1, ":0", "")
	tr := raft.NewTransport(1, ":0", conn)
	pid := uuid.NewV4()
	meta := pb.Dataset{Id: uuid.NewV4().Bytes(), Dimension: dimension, PartitionCount: 1, ReplicationFactor: 1,
		Partitions: []*pb.Partition{{Id: pid.Bytes(), NodeIds: []uint64{1}}}}
	d, err := newDataset(uuid.FromBytesOrNil(meta.Id), meta, db, tr, conn, nil)
	if err != nil {
		t.Fatal(err)
	}
	p := d.partitions[0]
	if err := p.loadRaft([]uint64{1}); err != nil {
		t.Fatal(err)
	}
	// wait until the single node has elected itself
	deadline := time.Now().Add(10 * time.Second)
	for p.raft.LeaderId() != 1 {
		if time.Now().After(deadline) {
			t.Fatal("no leader")
		}
		time.Sleep(50 * time.Millisecond)
	}
	return d, p, func() { p.close(); db.Close(); os.RemoveAll(dir) }
}

// Replay of the C12 poison clause (pre@...process#wellformed-entry / PartitionBatch* handlers):
// a partition-level batch request whose item id is malformed must be rejected with an error. Unvalidated, it is
// committed to the replicated log and every replica's apply returns an error, which the ready loop turns into log.Fatal
// (the test binary exits) - and again on every restart.
func TestVerifReplayC12MalformedBatchItemId(t *testing.T) {
	d, p, cleanup := verifLivePartition(t, 2)
	defer cleanup()
	items := []*pb.BatchItem{{Id: []byte{1, 2, 3}, Value: []float32{1, 2}}}
	ctx, cancel := context.WithTimeout(context.Background(), 3*time.Second)
	defer cancel()
	if _, err := d.PartitionBatchInsert(ctx, p.id, items); err == nil {
		t.Fatal("PartitionBatchInsert accepted a batch item with a 3-byte id")
	}
	if _, err := d.PartitionBatchUpdate(ctx, p.id, items); err == nil {
		t.Fatal("PartitionBatchUpdate accepted a batch item with a 3-byte id")
	}
	if _, err := d.PartitionBatchRemove(ctx, p.id, items); err == nil {
		t.Fatal("PartitionBatchRemove accepted a batch item with a 3-byte id")
	}
	time.Sleep(300 * time.Millisecond) // give a poisoned entry time to be applied (the process would be gone by now)
}

// wrong-length vectors must not reach the log through the partition-level batch entry points either
func TestVerifReplayC12PartitionBatchDimension(t *testing.T) {
	d, p, cleanup := verifLivePartition(t, 2)
	defer cleanup()
	id := uuid.NewV4()
	ctx, cancel := context.WithTimeout(context.Background(), 3*time.Second)
	defer cancel()
	errs, err := d.PartitionBatchInsert(ctx, p.id, []*pb.BatchItem{{Id: id.Bytes(), Value: []float32{}}})
	if err == nil && errs[id] == nil {
		t.Fatal("PartitionBatchInsert stored an empty vector in a dataset of dimension 2")
	}
	time.Sleep(300 * time.Millisecond)
}

// Replay of Dataset.BatchInsert/BatchUpdate/BatchRemove nopanic#uuid.Must (C12): a malformed id in a client batch must yield an error, not a panic in the handler
func TestVerifReplayC12BatchMalformedIdNoPanic(t *testing.T) {
	conn, _ := cluster.NewConn(1, ":0", "")
	pid := uuid.NewV4()
	d := &Dataset{id: uuid.NewV4(), meta: &pb.Dataset{Dimension: 2, PartitionCount: 1}, clusterConn: conn, partitionsMu: &sync.RWMutex{},
		dataManagerClients: map[uint64]pb.DataManagerClient{}, dataManagerClientsMu: &sync.RWMutex{}}
	d.partitions = []*partition{{id: pid, meta: &pb.Partition{Id: pid.Bytes(), NodeIds: []uint64{7}}, dataset: d}}
	items := []*pb.BatchItem{{Id: []byte{9}, Value: []float32{1, 2}}}
	for name, f := range map[string]func(context.Context, []*pb.BatchItem) (map[uuid.UUID]error, error){"BatchInsert": d.BatchInsert, "BatchUpdate": d.BatchUpdate, "BatchRemove": d.BatchRemove} {
		func() {
			defer func() {
				if r := recover(); r != nil {
					t.Fatalf("%s panicked on a malformed item id: %v", name, r)
				}
			}()
			errs, err := f(context.Background(), items)
			if err == nil && len(errs) == 0 {
				t.Fatalf("%s reported success for an item whose id is malformed", name)
			}
		}()
	}
}
