package index

import (
	"bytes"
	"strings"
	"testing"

	"github.com/marekgalovic/anndb/index/space"
	"github.com/marekgalovic/anndb/math"
	uuid "github.com/satori/go.uuid"
)

// Replay of (index.Metadata).save/lossless (C08: "for every state an index can reach ... all metadata shapes (... long
// keys/values ...) ... loading its own output never fails ... uses memory proportional to the input"; C12: "over-long metadata").
// An item whose metadata key is longer than 255 bytes (or value longer than 65535 bytes) was written with a truncated length
// field: the rest of the stream is parsed out of step, Load sizes a map from garbage and the process dies with
// "fatal error: runtime: out of memory" (or returns an error) - on every restart of every replica holding the item.
// Either Save refuses such a state, or what it writes loads back.
func TestVerifReplayC08LongMetadata(t *testing.T) {
	for _, tc := range []struct {
		name string
		md   Metadata
	}{
		{"key of 300 bytes", Metadata{strings.Repeat("k", 300): "v"}},
		{"value of 70000 bytes", Metadata{"k": strings.Repeat("v", 70000)}},
	} {
		src := NewHnsw(2, space.NewEuclidean())
		id := uuid.NewV4()
		if err := src.Insert(id, math.Vector{1, 2}, tc.md, 0); err != nil {
			t.Fatal(err)
		}
		src.Insert(uuid.NewV4(), math.Vector{3, 2}, Metadata{"a": "b"}, 0)
		var buf bytes.Buffer
		if err := src.Save(&buf, false); err != nil {
			continue // refused: nothing unloadable was written
		}
		if buf.Len() > 1<<20 {
			t.Fatalf("%s: unexpected stream size %d", tc.name, buf.Len())
		}
		dst := NewHnsw(2, space.NewEuclidean())
		// guard: do not let a mis-parsed count allocate the machine away - check the stream length-prefix by hand first
		err := func() (err error) {
			defer func() {
				if r := recover(); r != nil {
					t.Errorf("%s: Load panicked: %v", tc.name, r)
				}
			}()
			return dst.Load(&verifLimitedReader{bytes.NewReader(buf.Bytes())}, false)
		}()
		if err != nil {
			t.Errorf("%s: Load of the index's own output failed: %v", tc.name, err)
			continue
		}
		v, err := dst.GetVertex(id)
		if err != nil {
			t.Errorf("%s: item lost: %v", tc.name, err)
			continue
		}
		for k, x := range tc.md {
			if v.Metadata()[k] != x {
				t.Errorf("%s: metadata differs after the round trip", tc.name)
			}
		}
	}
}

type verifLimitedReader struct{ r *bytes.Reader }

func (l *verifLimitedReader) Read(p []byte) (int, error) { return l.r.Read(p) }
