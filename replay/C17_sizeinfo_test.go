package storage

import (
	"context"
	"sync"
	"testing"

	"github.com/marekgalovic/anndb/cluster"
	pb "github.com/marekgalovic/anndb/protobuf"
	uuid "github.com/satori/go.uuid"
	"google.golang.org/grpc"
)

type verifFakeDM struct {
	pb.DataManagerClient
	mu    sync.Mutex
	asked map[uuid.UUID]int
	sizes map[uuid.UUID]uint64
}

func (f *verifFakeDM) PartitionInfo(ctx context.Context, in *pb.PartitionInfoRequest, opts ...grpc.CallOption) (*pb.PartitionInfoResponse, error) {
	id := uuid.FromBytesOrNil(in.GetPartitionId())
	f.mu.Lock()
	f.asked[id]++
	f.mu.Unlock()
	return &pb.PartitionInfoResponse{Len: f.sizes[id], BytesSize: 10 * f.sizes[id]}, nil
}

// Replay of (*storage.Dataset).SizeInfo/spawn#stable-capture.partition (C17): each remote partition must be asked exactly once
// and the sizes summed; with the range variable captured by reference (go.mod says go 1.14) the workers all read the last partition.
func TestVerifReplayC17SizeInfo(t *testing.T) {
	conn, err := cluster.NewConn(1, ":0", "")
	if err != nil {
		t.Fatal(err)
	}
	fake := &verifFakeDM{asked: map[uuid.UUID]int{}, sizes: map[uuid.UUID]uint64{}}
	d := &Dataset{
		id:                   uuid.NewV4(),
		clusterConn:          conn,
		partitionsMu:         &sync.RWMutex{},
		dataManagerClients:   map[uint64]pb.DataManagerClient{2: fake},
		dataManagerClientsMu: &sync.RWMutex{},
	}
	for _, n := range []uint64{1, 10, 100} {
		pid := uuid.NewV4()
		fake.sizes[pid] = n
		d.partitions = append(d.partitions, &partition{id: pid, meta: &pb.Partition{Id: pid.Bytes(), NodeIds: []uint64{2}}, dataset: d})
	}
	for round := 0; round < 20; round++ {
		for k := range fake.asked {
			delete(fake.asked, k)
		}
		l, bs, err := d.SizeInfo(context.Background())
		if err != nil {
			t.Fatal(err)
		}
		if l != 111 || bs != 1110 {
			t.Fatalf("SizeInfo = (%d, %d), want (111, 1110); partitions asked: %v", l, bs, fake.asked)
		}
	}
}
