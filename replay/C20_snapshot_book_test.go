package raft

import (
	"testing"

	"github.com/marekgalovic/anndb/cluster"
	uuid "github.com/satori/go.uuid"
	log "github.com/sirupsen/logrus"
)

// Replay of (*storage/raft.sharedGroup).snapshot/post#captures-book (C20): a member that restores the zero group from a
// compacted snapshot (restart, or a lagging follower) must recover the member list with addresses. The snapshot carries
// the proxies' state only, so after the membership entries have been compacted away the addresses are gone.
func TestVerifReplayC20SnapshotCarriesAddressBook(t *testing.T) {
	conn1, _ := cluster.NewConn(1, ":6000", "")
	tr1 := NewTransport(1, ":6000", conn1)
	g1 := &RaftGroup{id: uuid.Nil, transport: tr1, log: log.WithFields(log.Fields{})}
	conn1.AddNode(2, "10.0.0.2:6000") // what applying node 2's join did
	sg1, err := NewSharedGroup(g1)
	if err != nil {
		t.Fatal(err)
	}
	data, err := sg1.snapshot()
	if err != nil {
		t.Fatal(err)
	}
	// a member that comes up from this snapshot
	conn2, _ := cluster.NewConn(3, ":6000", "")
	tr2 := NewTransport(3, ":6000", conn2)
	g2 := &RaftGroup{id: uuid.Nil, transport: tr2, log: log.WithFields(log.Fields{})}
	sg2, err := NewSharedGroup(g2)
	if err != nil {
		t.Fatal(err)
	}
	if err := sg2.processSnapshot(data); err != nil {
		t.Fatal(err)
	}
	if addr, ok := conn2.Nodes()[2]; !ok || addr != "10.0.0.2:6000" {
		t.Fatalf("after restoring the zero-group snapshot the member does not know node 2's address (book: %v)", conn2.Nodes())
	}
}
