package raft

import (
	"io/ioutil"
	"os"
	"testing"
	"time"

	"github.com/marekgalovic/anndb/cluster"
	pb "github.com/marekgalovic/anndb/protobuf"
	"github.com/marekgalovic/anndb/storage/wal"

	"github.com/coreos/etcd/raft/raftpb"
	badger "github.com/dgraph-io/badger/v2"
	"github.com/golang/protobuf/proto"
	uuid "github.com/satori/go.uuid"
)

func verifOpenDB(t *testing.T) (*badger.DB, func()) {
	dir, err := ioutil.TempDir("", "verif-replay")
	if err != nil {
		t.Fatal(err)
	}
	db, err := badger.Open(badger.DefaultOptions(dir).WithLogger(nil))
	if err != nil {
		t.Fatal(err)
	}
	return db, func() { db.Close(); os.RemoveAll(dir) }
}

// Replay of (*anndb.Server).setup/order#register-before-start (C14): on a restart whose zero-group log has been compacted,
// RaftGroup.Start applies the stored snapshot at once; a consumer ("datasets") that registers only after Start is not
// there yet. The sequence below is the one Server.setup executes: NewRaftGroup, NewSharedGroup, Start, [then] Get("datasets").
func TestVerifReplayC14StartBeforeRegister(t *testing.T) {
	db, cleanup := verifOpenDB(t)
	defer cleanup()
	w := wal.NewBadgerWAL(db, uuid.Nil)
	// what an earlier life of this node left behind: a compacted log whose snapshot holds the catalogue
	data, _ := proto.Marshal(&pb.SharedGroupSnapshot{ProxySnapshots: map[string][]byte{"datasets": []byte{}}})
	ents := []raftpb.Entry{{Index: 1, Term: 1}, {Index: 2, Term: 1}}
	if err := w.Save(raftpb.HardState{Term: 1, Commit: 2}, ents, raftpb.Snapshot{}); err != nil {
		t.Fatal(err)
	}
	if _, err := w.CreateSnapshot(2, &raftpb.ConfState{Nodes: []uint64{1}}, data); err != nil {
		t.Fatal(err)
	}
	conn, _ := cluster.NewConn(1, ":0", "")
	tr := NewTransport(1, ":0", conn)
	g, err := NewRaftGroup(uuid.Nil, nil, w, tr)
	if err != nil {
		t.Fatal(err)
	}
	defer g.Stop()
	sg, err := NewSharedGroup(g)
	if err != nil {
		t.Fatal(err)
	}
	func() {
		defer func() {
			if r := recover(); r != nil {
				t.Fatalf("zeroGroup.Start() before the catalogue registers: %v", r)
			}
		}()
		if err := g.Start(); err != nil {
			t.Fatalf("Start: %v", err)
		}
	}()
	_ = sg
}

// Replay of (*anndb.Server).setup/pre@raft.NewRaftGroup#fresh-storage and (*storage.Allocator).run/pre@...loadRaft#fresh-storage (C05):
// a node that restarts with a non-empty peer list calls etcd StartNode on its existing log: the term it had made durable
// is thrown away (back to 1) and bootstrap entries of term 1 are appended after entries of a higher term.
func TestVerifReplayC05RestartRebootstraps(t *testing.T) {
	db, cleanup := verifOpenDB(t)
	defer cleanup()
	gid := uuid.NewV4()
	w := wal.NewBadgerWAL(db, gid)
	ents := []raftpb.Entry{{Index: 1, Term: 5}, {Index: 2, Term: 5}, {Index: 3, Term: 7}}
	if err := w.Save(raftpb.HardState{Term: 7, Vote: 1, Commit: 3}, ents, raftpb.Snapshot{}); err != nil {
		t.Fatal(err)
	}
	conn, _ := cluster.NewConn(1, ":0", "")
	tr := NewTransport(1, ":0", conn)
	// what partition.loadRaft(partition.nodeIds()) does on every start of the process
	g, err := NewRaftGroup(gid, []uint64{1}, w, tr)
	if err != nil {
		t.Fatal(err)
	}
	defer g.Stop()
	select {
	case rd := <-g.raft.Ready():
		if rd.HardState.Term != 0 && rd.HardState.Term < 7 {
			t.Fatalf("after restart the node resumes at term %d although term 7 was durable", rd.HardState.Term)
		}
		for _, e := range rd.Entries {
			if e.Term < 7 {
				t.Fatalf("after restart the node appends entry index=%d term=%d behind durable entries of term 7 (re-bootstrap)", e.Index, e.Term)
			}
		}
	case <-time.After(3 * time.Second):
		t.Fatal("no Ready")
	}
}
