package storage

import (
	"context"
	"errors"
	"io"
	"sync"
	"testing"
	"time"

	"github.com/marekgalovic/anndb/cluster"
	pb "github.com/marekgalovic/anndb/protobuf"
	uuid "github.com/satori/go.uuid"
	"google.golang.org/grpc"
)

type verifFakeStream struct {
	pb.Search_SearchPartitionsClient
	items []*pb.SearchResultItem
	pos   int
}

func (s *verifFakeStream) Recv() (*pb.SearchResultItem, error) {
	if s.pos >= len(s.items) {
		return nil, io.EOF
	}
	s.pos++
	return s.items[s.pos-1], nil
}

type verifFakeSearch struct {
	pb.SearchClient
	fail  bool
	delay time.Duration
	items []*pb.SearchResultItem
}

func (f *verifFakeSearch) SearchPartitions(ctx context.Context, in *pb.SearchPartitionsRequest, opts ...grpc.CallOption) (pb.Search_SearchPartitionsClient, error) {
	if f.delay > 0 {
		time.Sleep(f.delay)
	}
	if f.fail {
		return nil, errors.New("node unreachable")
	}
	return &verifFakeStream{items: f.items}, nil
}

func verifSearchDataset(clients map[uint64]pb.SearchClient, nodes []uint64) *Dataset {
	conn, _ := cluster.NewConn(99, ":0", "")
	d := &Dataset{
		id:              uuid.NewV4(),
		meta:            &pb.Dataset{Dimension: 2},
		clusterConn:     conn,
		partitionsMu:    &sync.RWMutex{},
		searchClients:   clients,
		searchClientsMu: &sync.RWMutex{},
	}
	for _, n := range nodes {
		pid := uuid.NewV4()
		d.partitions = append(d.partitions, &partition{id: pid, meta: &pb.Partition{Id: pid.Bytes(), NodeIds: []uint64{n}}, dataset: d})
	}
	return d
}

// Replay of (*storage.Dataset).Search/noclose#resultCh, noclose#errorCh and post#all-consulted (C09):
// if one node cannot be searched the call must fail; it must never return a partial list with success.
func verifSlowCollector() func() {
	verifPauseFn = func(point string) {
		if point == "dataset.search.collect" {
			time.Sleep(300 * time.Microsecond)
		}
	}
	return func() { verifPauseFn = nil }
}

func TestVerifReplayC09SearchFailsLoudly(t *testing.T) {
	defer verifSlowCollector()()
	good := &verifFakeSearch{items: []*pb.SearchResultItem{{Id: uuid.NewV4().Bytes(), Score: 1}}}
	bad := &verifFakeSearch{fail: true}
	d := verifSearchDataset(map[uint64]pb.SearchClient{1: good, 2: bad, 3: good}, []uint64{1, 2, 3})
	for i := 0; i < 400; i++ {
		res, err := d.Search(context.Background(), []float32{0, 0}, 5)
		if err == nil {
			t.Fatalf("iteration %d: Search returned success with %d items although one node failed (receive on a closed channel stood in for the missing worker message)", i, len(res))
		}
	}
}

// Replay of (*storage.Dataset).searchPartitionsOnNode/post#one-message (C09): a worker that meets a malformed id must send
// exactly one message (the error), not an error followed by a result.
func TestVerifReplayC09WorkerOneMessage(t *testing.T) {
	defer verifSlowCollector()()
	malformed := &verifFakeSearch{items: []*pb.SearchResultItem{{Id: []byte{1, 2, 3}, Score: 1}}}
	good := &verifFakeSearch{items: []*pb.SearchResultItem{{Id: uuid.NewV4().Bytes(), Score: 2}}}
	d := verifSearchDataset(map[uint64]pb.SearchClient{1: malformed, 2: good}, []uint64{1, 2})
	for i := 0; i < 400; i++ {
		res, err := d.Search(context.Background(), []float32{0, 0}, 5)
		if err == nil {
			t.Fatalf("iteration %d: malformed item id from a remote node was turned into a successful result %v", i, res)
		}
	}
}
