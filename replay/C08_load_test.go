package index

import (
	"bytes"
	"io"
	"sync/atomic"
	"testing"

	"github.com/marekgalovic/anndb/index/space"
	"github.com/marekgalovic/anndb/math"
	uuid "github.com/satori/go.uuid"
)

// a reader that hands out at most 16 bytes per Read call (legal io.Reader behaviour)
type verifChunkReader struct {
	r io.Reader
}

func (c *verifChunkReader) Read(p []byte) (int, error) {
	if len(p) > 16 {
		p = p[:16]
	}
	return c.r.Read(p)
}

// Replay of (*index.Hnsw).Load/order#full-read (C08): loading must consume exactly the bytes written no matter how the
// reader fragments them. The metadata value below is 40 zero bytes; a reader that returns 16 bytes per call makes
// r.Read(valBytes) come back short and the rest of the stream is parsed out of step.
func TestVerifReplayC08FragmentingReader(t *testing.T) {
	src := NewHnsw(2, space.NewEuclidean())
	id := uuid.NewV4()
	src.Insert(id, math.Vector{1, 2}, Metadata{"k": string(make([]byte, 40))}, 0)
	var buf bytes.Buffer
	if err := src.Save(&buf, false); err != nil {
		t.Fatal(err)
	}
	dst := NewHnsw(2, space.NewEuclidean())
	rd := bytes.NewReader(buf.Bytes())
	err := func() (err error) {
		defer func() {
			if r := recover(); r != nil {
				t.Fatalf("Load through a fragmenting reader panicked: %v", r)
			}
		}()
		return dst.Load(&verifChunkReader{rd}, false)
	}()
	if err != nil {
		t.Fatalf("Load of the index's own output failed through a reader that returns 16 bytes per call: %v", err)
	}
	v, err := dst.GetVertex(id)
	if err != nil || len(v.Metadata()["k"]) != 40 || rd.Len() != 0 {
		t.Fatalf("Load through a fragmenting reader mis-parsed the stream: vertex=%v err=%v unread=%d", v, err, rd.Len())
	}
}

// Replay of (*index.Hnsw).Load/post#counters-from-stream (C08): loading into a used index must not leave stale counters behind
func TestVerifReplayC08StaleByteCounter(t *testing.T) {
	src := NewHnsw(2, space.NewEuclidean())
	src.Insert(uuid.NewV4(), math.Vector{1, 2}, Metadata{"k": "v"}, 0)
	var buf bytes.Buffer
	if err := src.Save(&buf, false); err != nil {
		t.Fatal(err)
	}
	dst := NewHnsw(2, space.NewEuclidean())
	dst.Insert(uuid.NewV4(), math.Vector{5, 6}, Metadata{"something": "long enough to matter"}, 0)
	if err := dst.Load(bytes.NewReader(buf.Bytes()), false); err != nil {
		t.Fatal(err)
	}
	if got, want := atomic.LoadUint64(&dst.bytesSize), atomic.LoadUint64(&src.bytesSize); got != want {
		t.Fatalf("after Load into a used index the data byte counter is %d, the loaded items account for %d (the old items' bytes were never subtracted)", got, want)
	}
}

// Replay of the empty-state clause of C08 (and C03 recovery): an index that holds nothing must round-trip too.
// History: insert one item, remove it, snapshot, restore.
func TestVerifReplayC08EmptyIndexRoundTrip(t *testing.T) {
	src := NewHnsw(2, space.NewEuclidean())
	id := uuid.NewV4()
	src.Insert(id, math.Vector{1, 2}, nil, 0)
	src.Remove(id)
	var buf bytes.Buffer
	if err := src.Save(&buf, false); err != nil {
		t.Fatal(err)
	}
	dst := NewHnsw(2, space.NewEuclidean())
	dst.Insert(uuid.NewV4(), math.Vector{5, 6}, nil, 0)
	if err := dst.Load(bytes.NewReader(buf.Bytes()), false); err != nil {
		t.Fatalf("the snapshot of an emptied index (%d bytes) cannot be loaded: %v - a replica that removed all its items and compacted cannot restart", buf.Len(), err)
	}
	if dst.Len() != 0 {
		t.Fatalf("after loading an empty snapshot the index still holds %d items", dst.Len())
	}
}
