package storage

import (
	"context"
	"io/ioutil"
	"os"
	"testing"

	"github.com/marekgalovic/anndb/cluster"
	pb "github.com/marekgalovic/anndb/protobuf"
	"github.com/marekgalovic/anndb/storage/raft"
	badger "github.com/dgraph-io/badger/v2"
	uuid "github.com/satori/go.uuid"
)

type verifSyncGroupSE struct{ process raft.ProcessFn }

func (g *verifSyncGroupSE) RegisterProcessFn(fn raft.ProcessFn) error         { g.process = fn; return nil }
func (g *verifSyncGroupSE) RegisterProcessSnapshotFn(fn raft.ProcessFn) error { return nil }
func (g *verifSyncGroupSE) RegisterSnapshotFn(fn raft.SnapshotFn) error       { return nil }
func (g *verifSyncGroupSE) LeaderId() uint64                                  { return 1 }
func (g *verifSyncGroupSE) Propose(ctx context.Context, data []byte) error    { return g.process(data) }

// Replay of (*storage.DatasetManager).Create/order#wellformed-proposal (space) - C12.
// A Create request whose `space` field holds a number that is no Space constant (protobuf enums are open: any int32
// decodes) is accepted and replicated. newIndexFromDatasetProto leaves the metric nil for it, so the SECOND insert into
// any partition dereferences a nil space.Space inside the apply path - on every replica, and again on every replay of the
// log after a restart (the entry is committed): a permanent crash loop caused by two well-typed requests.
func TestVerifReplayC12UnknownSpaceEnum(t *testing.T) {
	conn, _ := cluster.NewConn(1, ":0", "")
	conn.AddNode(1, ":0")
	alloc := NewAllocator(conn)
	dir, _ := ioutil.TempDir("", "verif-replay")
	defer os.RemoveAll(dir)
	db, err := badger.Open(badger.DefaultOptions(dir).WithLogger(nil))
	if err != nil {
		t.Fatal(err)
	}
	// the database stays open until the process exits: a loaded raft group writes to it from its own goroutine
	dm, err := NewDatasetManager(&verifSyncGroupSE{}, db, raft.NewTransport(1, ":0", conn), conn, alloc)
	if err != nil {
		t.Fatal(err)
	}
	ds, err := dm.Create(context.Background(), &pb.Dataset{Dimension: 2, PartitionCount: 1, ReplicationFactor: 1, Space: pb.Space(7)})
	if err != nil {
		return // rejected at the boundary: the property holds
	}
	// the dataset exists on every replica now; what its partitions do with two items (this is what partition.process ->
	// insertValue does with two committed insert entries)
	p := ds.partitions[0]
	defer func() {
		if r := recover(); r != nil {
			t.Errorf("Create accepted space=7; applying the second insert entry panics on every replica and on every replay: %v", r)
		}
	}()
	p.index.Insert(uuid.NewV4(), []float32{1, 2}, nil, 0)
	p.index.Insert(uuid.NewV4(), []float32{3, 4}, nil, 0)
	t.Fatalf("Create accepted a dataset with an unknown space (7) and the index works with a nil metric?")
}
