package storage

import (
	"testing"

	"github.com/marekgalovic/anndb/index"
	"github.com/marekgalovic/anndb/index/space"
	pb "github.com/marekgalovic/anndb/protobuf"
	"github.com/marekgalovic/anndb/utils"
	uuid "github.com/satori/go.uuid"
)

func verifReplayPartition() *partition {
	return &partition{
		id:          uuid.NewV4(),
		index:       index.NewHnsw(2, space.NewEuclidean()),
		notificator: utils.NewNotificator(),
	}
}

// Replay of (*storage.partition).updateValue/nopanic#nilmap and batchUpdateValue/nopanic#nilmap (C02, C04, C12):
// an update that carries no metadata (protobuf decodes an empty map as nil) of an item that has metadata
// must keep the old keys; it must not panic inside the apply loop.
func TestVerifReplayC02UpdateWithoutMetadata(t *testing.T) {
	p := verifReplayPartition()
	id := uuid.NewV4()
	if err := p.insertValue(uuid.NewV4(), id, []float32{1, 2}, index.Metadata{"a": "1"}, 0); err != nil {
		t.Fatal(err)
	}
	func() {
		defer func() {
			if r := recover(); r != nil {
				t.Fatalf("updateValue panicked on nil metadata: %v", r)
			}
		}()
		if err := p.updateValue(uuid.NewV4(), id, []float32{3, 4}, nil); err != nil {
			t.Fatal(err)
		}
	}()
	v, err := p.index.GetVertex(id)
	if err != nil {
		t.Fatalf("item lost by update: %v", err)
	}
	if v.Metadata()["a"] != "1" || v.Vector()[0] != 3 {
		t.Fatalf("update result wrong: %v %v", v.Metadata(), v.Vector())
	}
	// batch form
	func() {
		defer func() {
			if r := recover(); r != nil {
				t.Fatalf("batchUpdateValue panicked on nil metadata: %v", r)
			}
		}()
		if err := p.batchUpdateValue(uuid.NewV4(), []*pb.BatchItem{{Id: id.Bytes(), Value: []float32{5, 6}}}); err != nil {
			t.Fatal(err)
		}
	}()
	v, err = p.index.GetVertex(id)
	if err != nil || v.Metadata()["a"] != "1" || v.Vector()[0] != 5 {
		t.Fatalf("batch update result wrong: %v %v", v, err)
	}
}
