package storage

import (
	"context"
	"io"
	"os"
	"os/exec"
	"strings"
	"sync"
	"syscall"
	"testing"

	"github.com/marekgalovic/anndb/cluster"
	pb "github.com/marekgalovic/anndb/protobuf"
	uuid "github.com/satori/go.uuid"
	"google.golang.org/grpc"
)

type verifHugeKStream struct {
	pb.Search_SearchPartitionsClient
	items []*pb.SearchResultItem
	pos   int
}

func (s *verifHugeKStream) Recv() (*pb.SearchResultItem, error) {
	if s.pos >= len(s.items) {
		return nil, io.EOF
	}
	s.pos++
	return s.items[s.pos-1], nil
}

type verifHugeKSearch struct {
	pb.SearchClient
	items []*pb.SearchResultItem
}

func (f *verifHugeKSearch) SearchPartitions(ctx context.Context, in *pb.SearchPartitionsRequest, opts ...grpc.CallOption) (pb.Search_SearchPartitionsClient, error) {
	return &verifHugeKStream{items: f.items}, nil
}

// Replay of (*storage.Dataset).searchPartitionsOnNode/alloc#proportional (C12). A Search request with k = 4294967295 on a
// dataset whose one partition lives on node 1 (which answers with a single item): the per-node worker pre-sized its result
// with capacity k (137 GB of items) - "fatal error: out of memory", the whole process is gone. The request runs in a child
// process under a 4 GiB address-space limit; the parent reports how the child ended.
func TestVerifReplayC12HugeKRemoteWorker(t *testing.T) {
	if os.Getenv("VERIF_C12_CHILD") == "1" {
		lim := &syscall.Rlimit{Cur: 4 << 30, Max: 4 << 30}
		syscall.Setrlimit(syscall.RLIMIT_AS, lim)
		conn, _ := cluster.NewConn(99, ":0", "")
		node := &verifHugeKSearch{items: []*pb.SearchResultItem{{Id: uuid.NewV4().Bytes(), Score: 1}}}
		d := &Dataset{
			id: uuid.NewV4(), meta: &pb.Dataset{Dimension: 2}, clusterConn: conn, partitionsMu: &sync.RWMutex{},
			searchClients: map[uint64]pb.SearchClient{1: node}, searchClientsMu: &sync.RWMutex{},
		}
		pid := uuid.NewV4()
		d.partitions = append(d.partitions, &partition{id: pid, meta: &pb.Partition{Id: pid.Bytes(), NodeIds: []uint64{1}}, dataset: d})
		res, err := d.Search(context.Background(), []float32{0, 0}, uint(uint32(4294967295)))
		if err != nil {
			os.Stdout.WriteString("CHILD-ERROR " + err.Error() + "\n")
			return
		}
		if len(res) != 1 {
			os.Stdout.WriteString("CHILD-WRONG-RESULT\n")
			return
		}
		os.Stdout.WriteString("CHILD-OK\n")
		return
	}
	cmd := exec.Command(os.Args[0], "-test.run", "^TestVerifReplayC12HugeKRemoteWorker$")
	cmd.Env = append(os.Environ(), "VERIF_C12_CHILD=1")
	out, err := cmd.CombinedOutput()
	s := string(out)
	if strings.Contains(s, "CHILD-OK") || strings.Contains(s, "CHILD-ERROR") {
		return
	}
	if i := strings.Index(s, "\n\n"); i > 0 {
		s = s[:i]
	}
	t.Fatalf("Search with k=4294967295 took the server process down (%v):\n%s", err, s)
}
