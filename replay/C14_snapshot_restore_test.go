package storage

import (
	"context"
	"io/ioutil"
	"os"
	"testing"

	"github.com/marekgalovic/anndb/cluster"
	pb "github.com/marekgalovic/anndb/protobuf"
	"github.com/marekgalovic/anndb/storage/raft"
	badger "github.com/dgraph-io/badger/v2"
	"github.com/golang/protobuf/proto"
	uuid "github.com/satori/go.uuid"
)

type verifLogGroup struct {
	process raft.ProcessFn
	log     [][]byte
}

func (g *verifLogGroup) RegisterProcessFn(fn raft.ProcessFn) error         { g.process = fn; return nil }
func (g *verifLogGroup) RegisterProcessSnapshotFn(fn raft.ProcessFn) error { return nil }
func (g *verifLogGroup) RegisterSnapshotFn(fn raft.SnapshotFn) error       { return nil }
func (g *verifLogGroup) LeaderId() uint64                                  { return 1 }
func (g *verifLogGroup) Propose(ctx context.Context, data []byte) error {
	g.log = append(g.log, data)
	go g.process(data)
	return nil
}

func verifManager(t *testing.T) (*DatasetManager, *verifLogGroup, func()) {
	conn, _ := cluster.NewConn(1, ":0", "")
	conn.AddNode(1, ":0")
	alloc := NewAllocator(conn)
	g := &verifLogGroup{}
	dir, _ := ioutil.TempDir("", "verif-replay")
	db, err := badger.Open(badger.DefaultOptions(dir).WithLogger(nil))
	if err != nil {
		t.Fatal(err)
	}
	dm, err := NewDatasetManager(g, db, raft.NewTransport(1, ":0", conn), conn, alloc)
	if err != nil {
		t.Fatal(err)
	}
	return dm, g, func() { dm.Close(); alloc.Stop(); db.Close(); os.RemoveAll(dir) }
}

// Replay of (*storage.DatasetManager).processSnapshot/post#exact (C14): restoring a catalogue snapshot must yield exactly the
// snapshot's catalogue. History: the leader creates A and deletes A, then compacts; a follower that has applied only
// "create A" receives that snapshot. The deleted dataset must disappear on the follower.
func TestVerifReplayC14SnapshotRestoreExact(t *testing.T) {
	leader, lg, stop1 := verifManager(t)
	defer stop1()
	follower, _, stop2 := verifManager(t)
	defer stop2()

	ds, err := leader.Create(context.Background(), &pb.Dataset{Dimension: 2, PartitionCount: 1, ReplicationFactor: 1})
	if err != nil {
		t.Fatal(err)
	}
	id := uuid.FromBytesOrNil(ds.Meta().GetId())
	// the follower applies the same first log entry
	if err := follower.process(lg.log[0]); err != nil {
		t.Fatal(err)
	}
	if _, err := follower.Get(id); err != nil {
		t.Fatal("follower did not apply create")
	}
	if err := leader.Delete(context.Background(), id); err != nil {
		t.Fatal(err)
	}
	snap, err := leader.snapshot()
	if err != nil {
		t.Fatal(err)
	}
	var s pb.DatasetManagerSnapshot
	if err := proto.Unmarshal(snap, &s); err != nil || len(s.Datasets) != 0 {
		t.Fatalf("leader snapshot should be empty: %v %v", s.Datasets, err)
	}
	if err := follower.processSnapshot(snap); err != nil {
		t.Fatal(err)
	}
	if _, err := follower.Get(id); err == nil {
		t.Fatalf("after restoring the leader's snapshot (taken after the dataset was deleted) the follower still lists dataset %s", id)
	}
}
