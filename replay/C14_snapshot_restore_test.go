package storage

import (
	"context"
	"io/ioutil"
	"os"
	"reflect"
	"testing"
	"time"

	"github.com/marekgalovic/anndb/cluster"
	pb "github.com/marekgalovic/anndb/protobuf"
	"github.com/marekgalovic/anndb/storage/raft"
	badger "github.com/dgraph-io/badger/v2"
	"github.com/golang/protobuf/proto"
	uuid "github.com/satori/go.uuid"
)

type verifLogGroup struct {
	process raft.ProcessFn
	log     [][]byte
}

func (g *verifLogGroup) RegisterProcessFn(fn raft.ProcessFn) error         { g.process = fn; return nil }
func (g *verifLogGroup) RegisterProcessSnapshotFn(fn raft.ProcessFn) error { return nil }
func (g *verifLogGroup) RegisterSnapshotFn(fn raft.SnapshotFn) error       { return nil }
func (g *verifLogGroup) LeaderId() uint64                                  { return 1 }
func (g *verifLogGroup) Propose(ctx context.Context, data []byte) error {
	g.log = append(g.log, data)
	go g.process(data)
	return nil
}

func verifManager(t *testing.T) (*DatasetManager, *verifLogGroup, func()) {
	conn, _ := cluster.NewConn(1, ":0", "")
	conn.AddNode(1, ":0")
	alloc := NewAllocator(conn)
	g := &verifLogGroup{}
	dir, _ := ioutil.TempDir("", "verif-replay")
	db, err := badger.Open(badger.DefaultOptions(dir).WithLogger(nil))
	if err != nil {
		t.Fatal(err)
	}
	dm, err := NewDatasetManager(g, db, raft.NewTransport(1, ":0", conn), conn, alloc)
	if err != nil {
		t.Fatal(err)
	}
	return dm, g, func() {
		dm.Close()
		alloc.Stop()
		// the ready loops of the partitions' raft groups end asynchronously: give them time before the database goes away
		time.Sleep(300 * time.Millisecond)
		db.Close()
		os.RemoveAll(dir)
	}
}

// Replay of (*storage.DatasetManager).processSnapshot/post#exact (C14): restoring a catalogue snapshot must yield exactly the
// snapshot's catalogue. History: the leader creates A and deletes A, then compacts; a follower that has applied only
// "create A" receives that snapshot. The deleted dataset must disappear on the follower.
func TestVerifReplayC14SnapshotRestoreExact(t *testing.T) {
	leader, lg, stop1 := verifManager(t)
	defer stop1()
	follower, _, stop2 := verifManager(t)
	defer stop2()

	ds, err := leader.Create(context.Background(), &pb.Dataset{Dimension: 2, PartitionCount: 1, ReplicationFactor: 1})
	if err != nil {
		t.Fatal(err)
	}
	id := uuid.FromBytesOrNil(ds.Meta().GetId())
	// the follower applies the same first log entry
	if err := follower.process(lg.log[0]); err != nil {
		t.Fatal(err)
	}
	if _, err := follower.Get(id); err != nil {
		t.Fatal("follower did not apply create")
	}
	// let the partition's freshly started raft group finish its first Ready: deleting the dataset while that Ready is
	// being saved makes the ready loop hit log.Fatal("Entry not found") - a race between RaftGroup.Stop + WAL.DeleteGroup
	// and the running loop that is outside what sequential contracts decide (noted in DESIGN.md, not part of this replay)
	time.Sleep(300 * time.Millisecond)
	if err := leader.Delete(context.Background(), id); err != nil {
		t.Fatal(err)
	}
	snap, err := leader.snapshot()
	if err != nil {
		t.Fatal(err)
	}
	var s pb.DatasetManagerSnapshot
	if err := proto.Unmarshal(snap, &s); err != nil || len(s.Datasets) != 0 {
		t.Fatalf("leader snapshot should be empty: %v %v", s.Datasets, err)
	}
	if err := follower.processSnapshot(snap); err != nil {
		t.Fatal(err)
	}
	if _, err := follower.Get(id); err == nil {
		t.Fatalf("after restoring the leader's snapshot (taken after the dataset was deleted) the follower still lists dataset %s", id)
	}
}

// Replay of (*storage.DatasetManager).processSnapshot/order#replica-set-from-snapshot (C14: "identical ... replica assignment";
// "restoring a catalogue snapshot and replaying the rest yields the same catalogue"). History: the leader creates a dataset and
// then adds node 7 to its partition, then compacts; a follower that has applied only the creation receives that snapshot.
// The follower must list the partition on the same nodes as the leader (the entry that added node 7 is never replayed to it).
func TestVerifReplayC14SnapshotRestoresReplicaSets(t *testing.T) {
	leader, lg, stop1 := verifManager(t)
	defer stop1()
	follower, _, stop2 := verifManager(t)
	defer stop2()

	ds, err := leader.Create(context.Background(), &pb.Dataset{Dimension: 2, PartitionCount: 1, ReplicationFactor: 1})
	if err != nil {
		t.Fatal(err)
	}
	id := uuid.FromBytesOrNil(ds.Meta().GetId())
	if err := follower.process(lg.log[0]); err != nil {
		t.Fatal(err)
	}
	pid := ds.partitions[0].id
	if err := leader.addPartitionNode(context.Background(), id, pid, 7); err != nil {
		t.Fatal(err)
	}
	snap, err := leader.snapshot()
	if err != nil {
		t.Fatal(err)
	}
	if err := follower.processSnapshot(snap); err != nil {
		t.Fatal(err)
	}
	fd, err := follower.Get(id)
	if err != nil {
		t.Fatal(err)
	}
	want := ds.partitions[0].nodeIds()
	got := fd.partitions[0].nodeIds()
	if !reflect.DeepEqual(want, got) {
		t.Fatalf("after restoring the leader's snapshot the follower lists partition %s on %v, the leader (and the snapshot) on %v", pid, got, want)
	}
}

// Replay of (*storage/wal.badgerWAL).DeleteGroup/order#left-as-a-fresh-store (C06/C14). Replica-set history on one node: the
// dataset is created with its partition on this node, this node is taken out of the partition's replica set (its group is
// stopped and its log deleted - the partition keeps the store object), and later put back. Putting it back must load the
// group again; on the unrepaired tree the deleted store has no first entry and etcd/raft panics with "Entry not found"
// (in production: inside the catalogue's ready loop, i.e. the process dies while applying the replica-set entry).
func TestVerifReplayC14ReAddAfterRemove(t *testing.T) {
	dm, _, stop := verifManager(t)
	defer stop()
	ds, err := dm.Create(context.Background(), &pb.Dataset{Dimension: 2, PartitionCount: 1, ReplicationFactor: 1})
	if err != nil {
		t.Fatal(err)
	}
	time.Sleep(500 * time.Millisecond)
	p := ds.partitions[0]
	if p.raft == nil {
		t.Fatal("partition not loaded after create")
	}
	p.removeNode(1)
	time.Sleep(300 * time.Millisecond)
	if p.raft != nil {
		t.Fatal("still loaded after this node left the replica set")
	}
	func() {
		defer func() {
			if r := recover(); r != nil {
				t.Fatalf("re-adding this node to the replica set panicked: %v", r)
			}
		}()
		p.addNode(1)
	}()
	time.Sleep(300 * time.Millisecond)
	if p.raft == nil {
		t.Fatal("re-added to the replica set, but the group is not loaded")
	}
}
