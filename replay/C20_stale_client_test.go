package raft

import (
	"context"
	"net"
	"sync/atomic"
	"testing"
	"time"

	"github.com/marekgalovic/anndb/cluster"
	pb "github.com/marekgalovic/anndb/protobuf"
	"google.golang.org/grpc"
)

type verifRaftServer struct{ got int32 }

func (s *verifRaftServer) Receive(ctx context.Context, m *pb.RaftMessage) (*pb.EmptyMessage, error) {
	atomic.AddInt32(&s.got, 1)
	return &pb.EmptyMessage{}, nil
}

func verifListen(t *testing.T) (string, *verifRaftServer, func()) {
	l, err := net.Listen("tcp", "127.0.0.1:0")
	if err != nil {
		t.Fatal(err)
	}
	s := grpc.NewServer()
	impl := &verifRaftServer{}
	pb.RegisterRaftTransportServer(s, impl)
	go s.Serve(l)
	return l.Addr().String(), impl, s.Stop
}

// Replay of (*storage/raft.RaftTransport).getNodeRaftTransportClient/frame (C20: "... lists it with the address it announced
// ... so it can still reach every peer hosting its partitions"). Node 2 is known under address A and a raft message has been
// sent to it (so a client for it exists); it goes away and joins again under address B. cluster.Conn lists it under B and closes
// the connection to A - but the transport kept the client built on that connection: every later message to node 2 failed with
// "grpc: the client connection is closing" although node 2 listens on B (the same held for the dataset's search and data
// manager clients, and for a node that was removed and added again under the same address).
func TestVerifReplayC20ReachableAfterRejoin(t *testing.T) {
	addrA, srvA, stopA := verifListen(t)
	addrB, srvB, stopB := verifListen(t)
	defer stopB()
	conn, _ := cluster.NewConn(1, ":0", "")
	conn.AddNode(2, addrA)
	tr := NewTransport(1, ":0", conn)
	send := func() error {
		c, err := tr.getNodeRaftTransportClient(2)
		if err != nil {
			return err
		}
		ctx, cancel := context.WithTimeout(context.Background(), 2*time.Second)
		defer cancel()
		_, err = c.Receive(ctx, &pb.RaftMessage{})
		return err
	}
	if err := send(); err != nil || atomic.LoadInt32(&srvA.got) != 1 {
		t.Fatalf("first message to node 2 at %s: %v", addrA, err)
	}
	// node 2 goes away and joins again under a new address
	stopA()
	conn.AddNode(2, addrB)
	if a := conn.Nodes()[2]; a != addrB {
		t.Fatalf("node 2 listed under %s", a)
	}
	if err := send(); err != nil || atomic.LoadInt32(&srvB.got) != 1 {
		t.Fatalf("node 2 is listed under its new address %s but cannot be reached: %v (received there: %d)", addrB, err, srvB.got)
	}
}
