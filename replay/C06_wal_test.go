package wal

import (
	"io/ioutil"
	"os"
	"testing"

	etcdRaft "github.com/coreos/etcd/raft"
	"github.com/coreos/etcd/raft/raftpb"
	badger "github.com/dgraph-io/badger/v2"
	uuid "github.com/satori/go.uuid"
)

func verifC06DB(t *testing.T) (*badger.DB, func()) {
	dir, _ := ioutil.TempDir("", "verif-replay")
	db, err := badger.Open(badger.DefaultOptions(dir).WithLogger(nil))
	if err != nil {
		t.Fatal(err)
	}
	return db, func() { db.Close(); os.RemoveAll(dir) }
}

// Replay of (*storage/wal.badgerWAL).Save/order#wipe-before-marker and post#cache-last-after-install - C06.
// History: a follower holds entries 1..2 (term 1, uncommitted) and receives a snapshot at index 1 with term 2 (its log does
// not match there, so raft installs it). The reference storage answers LastIndex = 1, Term(1) = 2.
func TestVerifReplayC06InstallSnapshotInsideLog(t *testing.T) {
	db, done := verifC06DB(t)
	defer done()
	w := NewBadgerWAL(db, uuid.NewV4())
	ref := etcdRaft.NewMemoryStorage()
	es := []raftpb.Entry{{Index: 1, Term: 1}, {Index: 2, Term: 1}}
	w.Save(raftpb.HardState{Term: 1, Vote: 1}, es, raftpb.Snapshot{})
	ref.Append(es)
	snap := raftpb.Snapshot{Data: []byte("s"), Metadata: raftpb.SnapshotMetadata{Index: 1, Term: 2, ConfState: raftpb.ConfState{Nodes: []uint64{1, 2}}}}
	if err := w.Save(raftpb.HardState{Term: 2, Vote: 2, Commit: 1}, nil, snap); err != nil {
		t.Fatal(err)
	}
	ref.ApplySnapshot(snap)
	wantLast, _ := ref.LastIndex()
	wantTerm, wantErr := ref.Term(1)
	if got, _ := w.LastIndex(); got != wantLast {
		t.Errorf("LastIndex after installing the snapshot: got %d, reference %d (the cached last index still points into the deleted log)", got, wantLast)
	}
	if got, err := w.Term(1); got != wantTerm || err != wantErr {
		t.Errorf("Term(snapshot index): got (%d, %v), reference (%d, %v) (the marker entry at the snapshot index was deleted together with the log)", got, err, wantTerm, wantErr)
	}
	// cold cache
	w2 := NewBadgerWAL(db, w.groupId)
	if fi, _ := w2.FirstIndex(); fi != 2 {
		t.Errorf("FirstIndex after reopen: got %d, want 2 (the log looks empty and is re-initialised although a snapshot is stored)", fi)
	}
}

// Replay of bounded:C06-wal-differential (DeleteGroup clause) - C06: a store created for a group id after DeleteGroup must
// look like a fresh one.
func TestVerifReplayC06DeleteGroupLeavesState(t *testing.T) {
	db, done := verifC06DB(t)
	defer done()
	gid := uuid.NewV4()
	w := NewBadgerWAL(db, gid)
	w.Save(raftpb.HardState{Term: 3, Vote: 1, Commit: 2}, []raftpb.Entry{{Index: 1, Term: 3}, {Index: 2, Term: 3}}, raftpb.Snapshot{})
	if _, err := w.CreateSnapshot(2, &raftpb.ConfState{Nodes: []uint64{1}}, []byte("d")); err != nil {
		t.Fatal(err)
	}
	if err := w.DeleteGroup(); err != nil {
		t.Fatal(err)
	}
	again := NewBadgerWAL(db, gid)
	hs, cs, err := again.InitialState()
	if err != nil {
		t.Fatal(err)
	}
	li, _ := again.LastIndex()
	if !etcdRaft.IsEmptyHardState(hs) || len(cs.Nodes) != 0 {
		t.Errorf("after DeleteGroup a new store for the same group id reports hard state %+v and members %v next to last index %d: not fresh storage (commit beyond the log makes raft panic on restart)", hs, cs.Nodes, li)
	}
	if s, _ := again.Snapshot(); !etcdRaft.IsEmptySnap(s) {
		t.Errorf("after DeleteGroup the old snapshot (index %d) is still stored", s.Metadata.Index)
	}
}
