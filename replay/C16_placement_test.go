package storage

import (
	"testing"

	"github.com/marekgalovic/anndb/cluster"
)

// Replay of C16 obligations (*storage.Allocator).getPartitionsNodeIds/inv#loop1.noalias-buffer, post#independent, post#size, post#distinct:
// every partition gets min(R,N) distinct member nodes and the placements do not share storage
// (a placement that aliases the shuffle buffer is rewritten by each later shuffle, so all partitions end up on the same nodes).
func TestVerifReplayC16Placement(t *testing.T) {
	conn, err := cluster.NewConn(1, ":0", "")
	if err != nil {
		t.Fatal(err)
	}
	for id := uint64(1); id <= 6; id++ {
		conn.AddNode(id, "a")
	}
	a := &Allocator{clusterConn: conn}
	const P, R = 12, 2
	out := a.getPartitionsNodeIds(P, R)
	if len(out) != P {
		t.Fatalf("got %d placements", len(out))
	}
	for i, ids := range out {
		if len(ids) != R {
			t.Fatalf("partition %d has %d nodes, want %d", i, len(ids), R)
		}
		seen := map[uint64]bool{}
		for _, id := range ids {
			if id < 1 || id > 6 || seen[id] {
				t.Fatalf("partition %d: bad placement %v", i, ids)
			}
			seen[id] = true
		}
	}
	for i := 0; i < P; i++ {
		for j := i + 1; j < P; j++ {
			if &out[i][0] == &out[j][0] {
				t.Fatalf("partitions %d and %d share storage: every partition is placed on the nodes of the last shuffle: %v", i, j, out)
			}
		}
	}
	// R > N
	out = a.getPartitionsNodeIds(3, 9)
	for i, ids := range out {
		if len(ids) != 6 {
			t.Fatalf("partition %d has %d nodes, want min(R,N)=6", i, len(ids))
		}
	}
}
