package raft

import (
	"context"
	"reflect"
	"sort"
	"sync"
	"testing"
	"time"

	"github.com/marekgalovic/anndb/cluster"
	pb "github.com/marekgalovic/anndb/protobuf"
	"github.com/marekgalovic/anndb/storage/wal"

	"github.com/coreos/etcd/raft/raftpb"
	badger "github.com/dgraph-io/badger/v2"
	"github.com/golang/protobuf/proto"
	uuid "github.com/satori/go.uuid"
	"google.golang.org/grpc"
)

type verifSinkClient struct {
	mu   sync.Mutex
	msgs []raftpb.Message
}

func (this *verifSinkClient) Receive(ctx context.Context, in *pb.RaftMessage, opts ...grpc.CallOption) (*pb.EmptyMessage, error) {
	var m raftpb.Message
	if err := proto.Unmarshal(in.GetMessage(), &m); err != nil {
		return nil, err
	}
	this.mu.Lock()
	this.msgs = append(this.msgs, m)
	this.mu.Unlock()
	return &pb.EmptyMessage{}, nil
}

func (this *verifSinkClient) ackedUpTo() uint64 {
	this.mu.Lock()
	defer this.mu.Unlock()
	var idx uint64
	for _, m := range this.msgs {
		if m.Type == raftpb.MsgAppResp && !m.Reject && m.Index > idx {
			idx = m.Index
		}
	}
	return idx
}

func verifWaitFor(t *testing.T, what string, cond func() bool) {
	deadline := time.Now().Add(20 * time.Second)
	for time.Now().Before(deadline) {
		if cond() {
			return
		}
		time.Sleep(10 * time.Millisecond)
	}
	t.Fatalf("timed out waiting for %s", what)
}

// Replay of (*storage/raft.RaftGroup).run/inv#…confstate-follows-installed-snapshot (C05: "after a restart it resumes from a term
// and log no older than what it had made durable"; membership is part of that state). Node 2 is a founding member of {1,2}.
// While it lags, node 3 joins; the leader compacts and sends node 2 a snapshot whose configuration is {1,2,3}. Node 2 installs
// it, applies two more entries and takes a local snapshot: the configuration it writes must be {1,2,3} - what it restores
// from after a restart - not the {1,2} it remembered from the last configuration change it applied itself.
func TestVerifReplayC05LocalSnapshotKeepsInstalledMembership(t *testing.T) {
	opts := badger.LSMOnlyOptions(t.TempDir())
	opts.Logger = nil
	db, err := badger.Open(opts)
	if err != nil {
		t.Fatal(err)
	}
	defer db.Close()
	conn, _ := cluster.NewConn(2, "", "")
	transport := NewTransport(2, "", conn)
	leader := &verifSinkClient{}
	transport.nodeClients[1] = leader
	transport.nodeClients[3] = &verifSinkClient{}

	groupId := uuid.FromStringOrNil("22222222-2222-2222-2222-222222222222")
	w := wal.NewBadgerWAL(db, groupId)
	g, err := NewRaftGroup(groupId, []uint64{1, 2}, w, transport)
	if err != nil {
		t.Fatal(err)
	}
	g.RegisterProcessFn(func(data []byte) error { return nil })
	g.RegisterProcessSnapshotFn(func(data []byte) error { return nil })
	g.RegisterSnapshotFn(func() ([]byte, error) { return []byte("state"), nil })
	if err := g.Start(); err != nil {
		t.Fatal(err)
	}
	// the bootstrap configuration entries (index 1, 2) are applied by the ready loop
	verifWaitFor(t, "bootstrap entries applied", func() bool { return g.raft.Status().Applied >= 2 })

	snap := raftpb.Snapshot{Data: []byte("S5"), Metadata: raftpb.SnapshotMetadata{Index: 5, Term: 2, ConfState: raftpb.ConfState{Nodes: []uint64{1, 2, 3}}}}
	if err := g.receive(raftpb.Message{Type: raftpb.MsgSnap, From: 1, To: 2, Term: 2, Snapshot: snap}); err != nil {
		t.Fatal(err)
	}
	if err := g.receive(raftpb.Message{Type: raftpb.MsgApp, From: 1, To: 2, Term: 2, LogTerm: 2, Index: 5, Commit: 7,
		Entries: []raftpb.Entry{{Type: raftpb.EntryNormal, Term: 2, Index: 6, Data: []byte("e6")}, {Type: raftpb.EntryNormal, Term: 2, Index: 7, Data: []byte("e7")}}}); err != nil {
		t.Fatal(err)
	}
	verifWaitFor(t, "acknowledgement of index 7", func() bool { return leader.ackedUpTo() >= 7 })
	verifWaitFor(t, "entry 7 applied", func() bool { return g.raft.Status().Applied >= 7 })
	g.Stop()
	time.Sleep(200 * time.Millisecond)

	// the local snapshot the ready loop would take at its next tick
	if err := g.trySnapshot(7, 0); err != nil {
		t.Fatalf("local snapshot after an installed snapshot failed: %v", err)
	}
	stored, err := w.Snapshot()
	if err != nil {
		t.Fatal(err)
	}
	got := append([]uint64{}, stored.Metadata.ConfState.Nodes...)
	sort.Slice(got, func(i, j int) bool { return got[i] < got[j] })
	if stored.Metadata.Index != 7 || !reflect.DeepEqual(got, []uint64{1, 2, 3}) {
		t.Fatalf("local snapshot at index %d records members %v; the group's configuration (installed with the leader's snapshot) is [1 2 3] - a restart restores the membership from this snapshot", stored.Metadata.Index, got)
	}
}
