package index

import (
	"context"
	"math/rand"
	"sync/atomic"
	"testing"

	"github.com/marekgalovic/anndb/index/space"
	"github.com/marekgalovic/anndb/math"
	uuid "github.com/satori/go.uuid"
)

// Replay of (*index.Hnsw).Remove/post#C01 entrypoint-stored - C01 clause "a collection holding at least one item never
// answers a k>=1 search with an empty list".
// History: 60 items on a line, all at level 0 (the first one stays the entry point and keeps links to its 16 nearest);
// remove those neighbours, then the entry point itself. 43 items are stored, the entry point is nil.
func TestVerifReplayC01EntrypointLost(t *testing.T) {
	ix := NewHnsw(1, space.NewEuclidean())
	for i := 0; i < 60; i++ {
		if err := ix.Insert(uuid.NewV4(), math.Vector{float32(i)}, nil, 0); err != nil {
			t.Fatal(err)
		}
	}
	ep := (*hnswVertex)(atomic.LoadPointer(&ix.entrypoint))
	var nb []uuid.UUID
	for v := range ep.edges[0] {
		nb = append(nb, v.id)
	}
	for _, id := range nb {
		ix.Remove(id)
	}
	ix.Remove(ep.id)
	res, _ := ix.Search(context.Background(), math.Vector{50}, 5)
	if ix.Len() > 0 && len(res) == 0 {
		t.Errorf("the index holds %d items but a k=5 search returns nothing: the entry point was removed after all of its neighbours and became nil", ix.Len())
	}
}

// Replay of (*index.Hnsw).Remove/post#C01 entrypoint-stored - C01 clause "every item returned is currently stored".
// Randomised histories (links become one-way through pruning, so an entry point can still link to a removed item and hand
// the role over to it): 200 indexes of 40-120 random points, removals concentrated around the entry point.
func TestVerifReplayC01RemovedItemReturned(t *testing.T) {
	rng := rand.New(rand.NewSource(7))
	for trial := 0; trial < 200; trial++ {
		var ix *Hnsw
		if trial%2 == 1 {
			ix = NewHnsw(2, space.NewEuclidean(), HnswSearchAlgorithm(HnswSearchHeuristic))
		} else {
			ix = NewHnsw(2, space.NewEuclidean())
		}
		live := map[uuid.UUID]bool{}
		n := 40 + rng.Intn(80)
		for i := 0; i < n; i++ {
			id := uuid.NewV4()
			lvl := 0
			for rng.Intn(4) == 0 && lvl < 3 {
				lvl++
			}
			ix.Insert(id, math.Vector{rng.Float32() * 10, rng.Float32() * 10}, nil, lvl)
			live[id] = true
		}
		for r := 0; r < n-3; r++ {
			var id uuid.UUID
			ep := (*hnswVertex)(atomic.LoadPointer(&ix.entrypoint))
			if ep != nil && rng.Intn(3) > 0 {
				if rng.Intn(4) == 0 {
					id = ep.id
				} else {
					for l := ep.level; l >= 0 && id == uuid.Nil; l-- {
						for nb := range ep.edges[l] {
							if !nb.isDeleted() {
								id = nb.id
								break
							}
						}
					}
				}
			}
			if id == uuid.Nil {
				for k := range live {
					id = k
					break
				}
			}
			if !live[id] {
				continue
			}
			ix.Remove(id)
			delete(live, id)
			res, _ := ix.Search(context.Background(), math.Vector{5, 5}, 3)
			for _, x := range res {
				if !live[x.Id] {
					t.Fatalf("trial %d, after %d removals (%d items stored): search returns the removed item %s", trial, r+1, len(live), x.Id)
				}
			}
			if len(live) > 0 && len(res) == 0 {
				t.Fatalf("trial %d, after %d removals: %d items stored but the search returns nothing", trial, r+1, len(live))
			}
		}
	}
}
