package storage

import (
	"context"
	"strings"
	"testing"

	"github.com/marekgalovic/anndb/index"
	"github.com/marekgalovic/anndb/math"
	pb "github.com/marekgalovic/anndb/protobuf"
	uuid "github.com/satori/go.uuid"
)

// Replay of (*storage.Dataset).Insert/post#oversize-metadata-refused (C12 "over-long metadata ... receives either a correct
// response or an error ... never appends a log entry that makes any replica fail"): metadata that the snapshot format cannot
// hold (key > 255 bytes, value > 65535 bytes, more than 65535 keys) must be refused before anything is proposed or proxied.
// The dataset below has no partitions at all: a refusal at the boundary returns before any partition is looked at.
func TestVerifReplayC12OverlongMetadataRefused(t *testing.T) {
	d := &Dataset{meta: &pb.Dataset{Dimension: 2}}
	long := index.Metadata{strings.Repeat("k", 300): "v"}
	for name, call := range map[string]func() error{
		"Insert": func() error { return d.Insert(context.Background(), uuid.NewV4(), math.Vector{1, 2}, long) },
		"Update": func() error { return d.Update(context.Background(), uuid.NewV4(), math.Vector{1, 2}, long) },
	} {
		err := func() (err error) {
			defer func() {
				if r := recover(); r != nil {
					t.Errorf("%s: not refused at the boundary (went on to route the item: %v)", name, r)
				}
			}()
			return call()
		}()
		if err != index.MetadataTooLargeErr {
			t.Errorf("%s with a 300-byte metadata key: got %v, want %v", name, err, index.MetadataTooLargeErr)
		}
	}
	p := &partition{dataset: d}
	items := []*pb.BatchItem{{Id: uuid.NewV4().Bytes(), Value: []float32{1, 2}, Metadata: map[string]string{"k": strings.Repeat("v", 70000)}}}
	if err := p.validateBatchItems(items, true); err != index.MetadataTooLargeErr {
		t.Errorf("partition batch with a 70000-byte metadata value: got %v", err)
	}
}
