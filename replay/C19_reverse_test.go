package utils

import "testing"

// Replay of C19 obligation (*utils.priorityQueue).Reverse/post#source-intact and #independent:
// after Reverse the source queue must keep its contents and ordering, and the two queues must not share storage.
func TestVerifReplayC19ReverseSourceIntact(t *testing.T) {
	q := NewMaxPriorityQueue()
	for _, p := range []float32{1, 2, 3, 4, 5} {
		q.Push(NewPriorityQueueItem(p, int(p)))
	}
	r := q.Reverse()
	if r.Len() != 5 {
		t.Fatalf("reversed queue has %d items", r.Len())
	}
	var popped []float32
	prev := float32(1e9)
	ok := true
	for q.Len() > 0 {
		it := q.Pop()
		popped = append(popped, it.Priority())
		if it.Priority() > prev {
			ok = false
		}
		prev = it.Priority()
	}
	if !ok {
		t.Fatalf("source max-queue pops out of order after Reverse: %v", popped)
	}
	// independence: pushing into the reversed queue must not disturb the source either
	q2 := NewMinPriorityQueue()
	for _, p := range []float32{1, 2, 3} {
		q2.Push(NewPriorityQueueItem(p, int(p)))
	}
	r2 := q2.Reverse()
	r2.Pop()
	r2.Push(NewPriorityQueueItem(0.5, 0))
	prev = -1
	popped = nil
	for q2.Len() > 0 {
		it := q2.Pop()
		popped = append(popped, it.Priority())
		if it.Priority() < prev {
			t.Fatalf("source min-queue disturbed by operations on the reversed queue: %v", popped)
		}
		prev = it.Priority()
	}
	if len(popped) != 3 {
		t.Fatalf("source lost items: %v", popped)
	}
}
