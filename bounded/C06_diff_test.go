package wal

import (
	"fmt"
	"io/ioutil"
	"os"
	"strconv"
	"testing"

	etcdRaft "github.com/coreos/etcd/raft"
	"github.com/coreos/etcd/raft/raftpb"
	badger "github.com/dgraph-io/badger/v2"
	uuid "github.com/satori/go.uuid"
)

// BOUNDED stand-in for C06 (not a proof): differential check of the Badger raft log against etcd/raft's MemoryStorage.
// Scope: every sequence of at most VERIF_C06_DEPTH operations (default 4) from the alphabet below, applied to a fresh store
// of group G1 while a second group G2 in the same database holds a fixed log; after every operation all observers
// (FirstIndex, LastIndex, Term(i), Entries(lo,hi,max), Snapshot, InitialState) are compared with the reference fed the same
// calls, and G2's observers are compared with their initial values.
// Alphabet: append 1 or 2 entries at last+1 (same or higher term) / overwrite the last 1 or 2 entries with a higher term /
// save the hard state / install a received snapshot (inside the log with a foreign term, or beyond the log; alone or with the entries that follow it in the same Ready) / create a local
// snapshot at first, middle or last index (compaction) / reopen (new instance on the same database, cold cache).

type verifC06Op struct {
	kind string
	a, b int
}

func verifC06Depth() int {
	if v, err := strconv.Atoi(os.Getenv("VERIF_C06_DEPTH")); err == nil && v > 0 {
		return v
	}
	return 4
}

type verifC06Pair struct {
	t    *testing.T
	db   *badger.DB
	gid  uuid.UUID
	w    *badgerWAL
	ref  *etcdRaft.MemoryStorage
	hs   raftpb.HardState
	desc string
}

func (p *verifC06Pair) lastTerm() uint64 {
	li, _ := p.ref.LastIndex()
	t, _ := p.ref.Term(li)
	return t
}

// apply returns false if the operation is not legal in the current state (sequence is skipped)
func (p *verifC06Pair) apply(op verifC06Op) (bool, string) {
	fi, _ := p.ref.FirstIndex()
	li, _ := p.ref.LastIndex()
	switch op.kind {
	case "append":
		term := p.lastTerm() + uint64(op.b)
		if term == 0 {
			term = 1
		}
		var es []raftpb.Entry
		for i := 0; i < op.a; i++ {
			es = append(es, raftpb.Entry{Index: li + 1 + uint64(i), Term: term, Data: []byte{byte(li), byte(i)}})
		}
		p.hs = raftpb.HardState{Term: term, Vote: 1, Commit: p.hs.Commit}
		if err := p.w.Save(p.hs, es, raftpb.Snapshot{}); err != nil {
			return true, "Save(entries): " + err.Error()
		}
		p.ref.Append(es)
		p.ref.SetHardState(p.hs)
	case "overwrite":
		back := uint64(op.a)
		if li < fi || li-fi+1 < back {
			return false, ""
		}
		start := li - back + 1
		term := p.lastTerm() + 1
		var es []raftpb.Entry
		for i := 0; i < op.b; i++ {
			es = append(es, raftpb.Entry{Index: start + uint64(i), Term: term, Data: []byte{0xee, byte(i)}})
		}
		if p.hs.Commit >= start {
			return false, "" // raft never overwrites committed entries
		}
		p.hs = raftpb.HardState{Term: term, Vote: 2, Commit: p.hs.Commit}
		if err := p.w.Save(p.hs, es, raftpb.Snapshot{}); err != nil {
			return true, "Save(overwrite): " + err.Error()
		}
		p.ref.Append(es)
		p.ref.SetHardState(p.hs)
	case "commit":
		if li == 0 || p.hs.Commit >= li {
			return false, ""
		}
		p.hs.Commit = li
		if p.hs.Term == 0 {
			p.hs.Term = 1
		}
		if err := p.w.Save(p.hs, nil, raftpb.Snapshot{}); err != nil {
			return true, "Save(hardstate): " + err.Error()
		}
		p.ref.SetHardState(p.hs)
	case "install":
		snapRef, _ := p.ref.Snapshot()
		var idx uint64
		if op.a == 0 {
			// inside the current log, at an uncommitted index, with a term the log does not have there
			if li < fi || li <= p.hs.Commit {
				return false, ""
			}
			idx = p.hs.Commit + 1
			if idx < fi {
				idx = fi
			}
			if idx > li || idx <= snapRef.Metadata.Index {
				return false, ""
			}
		} else {
			idx = li + 2
		}
		term := p.lastTerm() + 1
		snap := raftpb.Snapshot{Data: []byte{0x55, byte(idx)}, Metadata: raftpb.SnapshotMetadata{Index: idx, Term: term, ConfState: raftpb.ConfState{Nodes: []uint64{1, 2}}}}
		p.hs = raftpb.HardState{Term: term, Vote: 2, Commit: idx}
		var es []raftpb.Entry
		for i := 0; i < op.b; i++ {
			// a Ready may carry a snapshot together with the entries that follow it
			es = append(es, raftpb.Entry{Index: idx + 1 + uint64(i), Term: term, Data: []byte{0x99, byte(i)}})
		}
		if err := p.w.Save(p.hs, es, snap); err != nil {
			return true, "Save(snapshot): " + err.Error()
		}
		if err := p.ref.ApplySnapshot(snap); err != nil {
			return false, ""
		}
		p.ref.Append(es)
		p.ref.SetHardState(p.hs)
	case "compact":
		// local snapshot at an applied (committed) index
		var idx uint64
		switch op.a {
		case 0:
			idx = fi
		case 1:
			idx = (fi + p.hs.Commit) / 2
		default:
			idx = p.hs.Commit
		}
		snapRef, _ := p.ref.Snapshot()
		if idx < fi || idx > p.hs.Commit || idx > li || idx <= snapRef.Metadata.Index {
			return false, ""
		}
		cs := &raftpb.ConfState{Nodes: []uint64{1}}
		data := []byte{0x77, byte(idx)}
		if _, err := p.w.CreateSnapshot(idx, cs, data); err != nil {
			return true, "CreateSnapshot: " + err.Error()
		}
		if _, err := p.ref.CreateSnapshot(idx, cs, data); err != nil {
			return true, "reference CreateSnapshot: " + err.Error()
		}
		if err := p.ref.Compact(idx); err != nil {
			return true, "reference Compact: " + err.Error()
		}
	case "reopen":
		p.w = NewBadgerWAL(p.db, p.gid)
	}
	return true, ""
}

func verifC06Observe(s etcdRaft.Storage) string {
	out := ""
	fi, err := s.FirstIndex()
	out += fmt.Sprintf("first=%d,%v ", fi, err)
	li, err := s.LastIndex()
	out += fmt.Sprintf("last=%d,%v ", li, err)
	snap, err := s.Snapshot()
	out += fmt.Sprintf("snap=(%d,%d,%v,%x),%v ", snap.Metadata.Index, snap.Metadata.Term, snap.Metadata.ConfState.Nodes, snap.Data, err)
	hs, cs, err := s.InitialState()
	out += fmt.Sprintf("init=(%d,%d,%d|%v),%v ", hs.Term, hs.Vote, hs.Commit, cs.Nodes, err)
	lo := uint64(0)
	if fi > 1 {
		lo = fi - 2
	}
	for i := lo; i <= li+1; i++ {
		t, err := s.Term(i)
		out += fmt.Sprintf("T%d=%d,%v ", i, t, err)
	}
	for a := fi; a <= li; a++ {
		for b := a + 1; b <= li+1; b++ {
			for _, max := range []uint64{0, 1, 7, 20, 1 << 40} {
				es, err := s.Entries(a, b, max)
				out += fmt.Sprintf("E[%d,%d,%d]=", a, b, max)
				for _, e := range es {
					out += fmt.Sprintf("(%d,%d,%x)", e.Index, e.Term, e.Data)
				}
				out += fmt.Sprintf(",%v ", err)
			}
		}
	}
	if fi > 0 {
		_, err = s.Entries(fi-1, fi, 100)
		out += fmt.Sprintf("Ecompacted=%v ", err)
	}
	return out
}

func TestVerifBoundedC06Differential(t *testing.T) {
	depth := verifC06Depth()
	alphabet := []verifC06Op{
		{"append", 1, 0}, {"append", 2, 1}, {"overwrite", 1, 1}, {"overwrite", 2, 1}, {"overwrite", 1, 2}, {"commit", 0, 0},
		{"install", 0, 0}, {"install", 1, 0}, {"install", 0, 2}, {"install", 1, 1}, {"compact", 0, 0}, {"compact", 1, 0}, {"compact", 2, 0}, {"reopen", 0, 0},
	}
	dir, _ := ioutil.TempDir("", "verif-c06")
	defer os.RemoveAll(dir)
	db, err := badger.Open(badger.DefaultOptions(dir).WithLogger(nil).WithSyncWrites(false))
	if err != nil {
		t.Fatal(err)
	}
	defer db.Close()
	// the neighbour group
	g2 := uuid.Must(uuid.FromString("00000000-0000-4000-8000-0000000000ff"))
	w2 := NewBadgerWAL(db, g2)
	w2.Save(raftpb.HardState{Term: 9, Vote: 9, Commit: 2}, []raftpb.Entry{{Index: 1, Term: 9, Data: []byte("n1")}, {Index: 2, Term: 9, Data: []byte("n2")}, {Index: 3, Term: 9, Data: []byte("n3")}}, raftpb.Snapshot{})
	neighbour := verifC06Observe(NewBadgerWAL(db, g2))

	sequences, steps, failures, skipped := 0, 0, 0, 0
	seen := map[string]bool{}
	gcount := 0
	var rec func(prefix []verifC06Op)
	rec = func(prefix []verifC06Op) {
		if len(prefix) > 0 {
			gcount++
			gid := uuid.NewV4()
			p := &verifC06Pair{t: t, db: db, gid: gid, w: NewBadgerWAL(db, gid), ref: etcdRaft.NewMemoryStorage()}
			desc := ""
			legal := true
			for i, op := range prefix {
				ok, msg := p.apply(op)
				if !ok {
					legal = false
					break
				}
				desc += fmt.Sprintf("%s(%d,%d) ", op.kind, op.a, op.b)
				if i < len(prefix)-1 {
					continue // prefixes were compared when they were the whole sequence
				}
				steps++
				if msg != "" {
					failures++
					if failures <= 10 {
						t.Errorf("sequence [%s]: %s", desc, msg)
					}
					break
				}
				got, want := verifC06Observe(p.w), verifC06Observe(p.ref)
				if got != want {
					failures++
					if failures <= 10 {
						t.Errorf("sequence [%s]: store differs from etcd MemoryStorage\n want %s\n got  %s", desc, want, got)
					}
				}
				if n := verifC06Observe(NewBadgerWAL(db, g2)); n != neighbour {
					failures++
					if failures <= 10 {
						t.Errorf("sequence [%s]: the neighbour group changed\n was %s\n now %s", desc, neighbour, n)
					}
				}
				seen[want] = true
			}
			// DeleteGroup: a later store for the same id must look fresh, the neighbour must be untouched
			if legal && len(prefix) == depth {
				p.w.DeleteGroup()
				fresh := verifC06Observe(NewBadgerWAL(db, uuid.NewV4()))
				// the partition keeps the store object across unload/load: the deleted store itself must be a fresh one
				if got := verifC06Observe(p.w); got != fresh {
					failures++
					if failures <= 10 {
						t.Errorf("sequence [%s] then DeleteGroup: the deleted store object itself is not a fresh store\n fresh %s\n got   %s", desc, fresh, got)
					}
				}
				if got := verifC06Observe(NewBadgerWAL(db, gid)); got != fresh {
					failures++
					if failures <= 10 {
						t.Errorf("sequence [%s] then DeleteGroup: a new store for the same group id is not fresh\n fresh %s\n got   %s", desc, fresh, got)
					}
				}
				if n := verifC06Observe(NewBadgerWAL(db, g2)); n != neighbour {
					failures++
					if failures <= 10 {
						t.Errorf("sequence [%s] then DeleteGroup: the neighbour group changed", desc)
					}
				}
			}
			NewBadgerWAL(db, gid).reset(nil)
			if !legal {
				skipped++
				return
			}
			sequences++
		}
		if len(prefix) == depth {
			return
		}
		for _, op := range alphabet {
			rec(append(append([]verifC06Op{}, prefix...), op))
		}
	}
	rec(nil)
	fmt.Fprintf(os.Stdout, "VERIF-BOUNDED C06 sequences=%d compared_steps=%d distinct_reference_states=%d illegal_skipped=%d failures=%d bound=all legal call sequences of length<=%d over 14 operations (append 1-2, overwrite last 1-2, commit, install snapshot inside/beyond the log with 0-2 following entries, local snapshot at first/middle/last, reopen), one neighbour group, DeleteGroup after full-length sequences (the deleted store object and a new store for the same id both compared with a fresh one)\n", sequences, steps, len(seen), skipped, failures, depth)
}
