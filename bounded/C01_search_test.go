package index

import (
	"context"
	"fmt"
	gomath "math"
	"math/rand"
	"os"
	"strconv"
	"sync/atomic"
	"testing"

	"github.com/marekgalovic/anndb/index/space"
	"github.com/marekgalovic/anndb/math"
	uuid "github.com/satori/go.uuid"
)

// BOUNDED stand-in for the clauses of C01 that need the contents of the search beam (not a proof):
//  (1) exhaustively, every history of at most VERIF_C01_DEPTH (default 4) insert/remove operations over 4 ids with levels
//      0..2, for both neighbour-selection modes; after each history searches with k in {1,3,10};
//  (2) VERIF_C01_TRIALS (default 120) random indexes of 40-120 points whose items are removed one by one, preferring the
//      entry point and its neighbours (the histories that make links one-way and strand the entry point).
// Checked for every search: every result is currently stored, carries its current metadata and exactly space.Distance(query,
// current vector) as score, scores ascend, no id twice, at most k results, and a non-empty index never answers k>=1 with nothing.

type verifC01Ref struct {
	vec  math.Vector
	meta Metadata
}

func verifC01Check(ix *Hnsw, sp space.Space, live map[uuid.UUID]verifC01Ref, q math.Vector, k uint) string {
	res, err := ix.Search(context.Background(), q, k)
	if err != nil {
		return "error " + err.Error()
	}
	if uint(len(res)) > k {
		return fmt.Sprintf("%d results for k=%d", len(res), k)
	}
	if len(live) > 0 && k >= 1 && len(res) == 0 {
		return fmt.Sprintf("empty answer although %d items are stored", len(live))
	}
	seen := map[uuid.UUID]bool{}
	for i, r := range res {
		ref, ok := live[r.Id]
		if !ok {
			return fmt.Sprintf("result %s is not stored (removed or never inserted)", r.Id)
		}
		if seen[r.Id] {
			return fmt.Sprintf("id %s twice", r.Id)
		}
		seen[r.Id] = true
		if want := sp.Distance(q, ref.vec); gomath.Float32bits(want) != gomath.Float32bits(r.Score) {
			return fmt.Sprintf("score of %s is %v, distance to its current vector is %v", r.Id, r.Score, want)
		}
		if fmt.Sprint(map[string]string(r.Metadata)) != fmt.Sprint(map[string]string(ref.meta)) {
			return fmt.Sprintf("metadata of %s is %v, stored %v", r.Id, r.Metadata, ref.meta)
		}
		if i > 0 && res[i-1].Score > r.Score {
			return "scores not ascending"
		}
	}
	return ""
}

func verifEnvInt(name string, def int) int {
	if v, err := strconv.Atoi(os.Getenv(name)); err == nil && v > 0 {
		return v
	}
	return def
}

func TestVerifBoundedC01Search(t *testing.T) {
	depth := verifEnvInt("VERIF_C01_DEPTH", 4)
	trials := verifEnvInt("VERIF_C01_TRIALS", 120)
	failures, histories, searches := 0, 0, 0
	report := func(format string, a ...interface{}) {
		failures++
		if failures <= 10 {
			t.Errorf(format, a...)
		}
	}
	ids := []uuid.UUID{uuid.NewV4(), uuid.NewV4(), uuid.NewV4(), uuid.NewV4()}
	vecs := []math.Vector{{0, 0}, {1, 0}, {0, 2}, {3, 3}}
	metas := []Metadata{nil, {"a": "1"}, {}, {"b": "2", "c": "3"}}
	type op struct {
		ins     bool
		id, lvl int
	}
	var ops []op
	for i := 0; i < 4; i++ {
		ops = append(ops, op{false, i, 0})
		for l := 0; l < 3; l++ {
			ops = append(ops, op{true, i, l})
		}
	}
	for mode := 0; mode < 2; mode++ {
		var rec func(h []op)
		rec = func(h []op) {
			sp := space.NewEuclidean()
			var ix *Hnsw
			if mode == 1 {
				ix = NewHnsw(2, sp, HnswSearchAlgorithm(HnswSearchHeuristic))
			} else {
				ix = NewHnsw(2, sp)
			}
			live := map[uuid.UUID]verifC01Ref{}
			desc := ""
			for _, o := range h {
				if o.ins {
					if err := ix.Insert(ids[o.id], vecs[o.id], metas[o.id], o.lvl); err == nil {
						live[ids[o.id]] = verifC01Ref{vecs[o.id], metas[o.id]}
					}
					desc += fmt.Sprintf("I%d@%d ", o.id, o.lvl)
				} else {
					if err := ix.Remove(ids[o.id]); err == nil {
						delete(live, ids[o.id])
					}
					desc += fmt.Sprintf("R%d ", o.id)
				}
			}
			histories++
			for _, k := range []uint{1, 3, 10} {
				searches++
				if bad := verifC01Check(ix, sp, live, math.Vector{0.1, 0.1}, k); bad != "" {
					report("mode %d history [%s] k=%d: %s", mode, desc, k, bad)
				}
			}
			if len(h) == depth {
				return
			}
			for _, o := range ops {
				rec(append(append([]op{}, h...), o))
			}
		}
		rec(nil)
	}
	rng := rand.New(rand.NewSource(int64(verifEnvInt("VERIF_SEED", 7))))
	removals := 0
	for trial := 0; trial < trials; trial++ {
		var sp space.Space
		switch trial % 3 {
		case 0:
			sp = space.NewEuclidean()
		case 1:
			sp = space.NewManhattan()
		default:
			sp = space.NewCosine()
		}
		var ix *Hnsw
		if trial%2 == 1 {
			ix = NewHnsw(2, sp, HnswSearchAlgorithm(HnswSearchHeuristic))
		} else {
			ix = NewHnsw(2, sp)
		}
		live := map[uuid.UUID]verifC01Ref{}
		n := 40 + rng.Intn(80)
		for i := 0; i < n; i++ {
			id := uuid.NewV4()
			v := math.Vector{rng.Float32()*10 + 0.1, rng.Float32()*10 + 0.1}
			lvl := 0
			for rng.Intn(4) == 0 && lvl < 3 {
				lvl++
			}
			ix.Insert(id, v, nil, lvl)
			live[id] = verifC01Ref{v, nil}
		}
		for r := 0; r < n-2; r++ {
			var id uuid.UUID
			ep := (*hnswVertex)(atomic.LoadPointer(&ix.entrypoint))
			if ep != nil && rng.Intn(3) > 0 {
				if rng.Intn(4) == 0 {
					id = ep.id
				} else {
					for l := ep.level; l >= 0 && id == uuid.Nil; l-- {
						for nb := range ep.edges[l] {
							if !nb.isDeleted() {
								id = nb.id
								break
							}
						}
					}
				}
			}
			if id == uuid.Nil {
				for k := range live {
					id = k
					break
				}
			}
			if _, ok := live[id]; !ok {
				continue
			}
			ix.Remove(id)
			delete(live, id)
			removals++
			searches++
			if bad := verifC01Check(ix, sp, live, math.Vector{5, 5}, 3); bad != "" {
				report("random trial %d (%T) after %d removals, %d stored: %s", trial, sp, r+1, len(live), bad)
				break
			}
		}
	}
	fmt.Fprintf(os.Stdout, "VERIF-BOUNDED C01 histories=%d random_trials=%d removals=%d searches=%d failures=%d bound=all insert/remove histories of length<=%d over 4 ids x levels 0..2 x 2 selection modes, k in {1,3,10}; %d random indexes (40-120 points, 3 metrics) emptied around the entry point\n", histories, trials, removals, searches, failures, depth, trials)
}
