package index

import (
	"bytes"
	"fmt"
	"io"
	"os"
	"sort"
	"strconv"
	"sync/atomic"
	"testing"
	"testing/iotest"

	"github.com/marekgalovic/anndb/index/space"
	"github.com/marekgalovic/anndb/math"
	uuid "github.com/satori/go.uuid"
)

// BOUNDED stand-in for the stream-grammar conformance of Save/Load (C08 tier T2): not a proof.
// Scope: every history of at most verifMaxOps operations (insert/remove of 3 fixed ids with 3 metadata shapes, levels 0..2)
// starting from the empty index; each reached state is saved (with and without header) and loaded into (a) a fresh index,
// (b) a used index holding other items, through three readers: bytes.Buffer, one-byte-at-a-time, half reads.
// Compared: live ids, vectors (bit patterns), metadata, levels, links among live items, entry point id, Len, data byte counter.

// history length bound: VERIF_C08_MAXOPS (default 4)
var verifMaxOps = func() int {
	if v, err := strconv.Atoi(os.Getenv("VERIF_C08_MAXOPS")); err == nil && v > 0 {
		return v
	}
	return 4
}()

type verifOp struct {
	insert bool
	id     int
	meta   int
	level  int
}

func verifMeta(k int) Metadata {
	switch k {
	case 1:
		return Metadata{"a": "1"}
	case 2:
		return Metadata{"a": "1", "bb": "22", "": ""}
	}
	return Metadata{}
}

func verifDump(ix *Hnsw) string {
	var lines []string
	for _, shard := range ix.vertices {
		for id, v := range shard {
			var ks []string
			for k, x := range v.metadata {
				ks = append(ks, fmt.Sprintf("%q=%q", k, x))
			}
			sort.Strings(ks)
			var es []string
			for l := 0; l <= v.level; l++ {
				for u, d := range v.edges[l] {
					if u != nil && atomic.LoadUint32(&u.deleted) == 0 {
						es = append(es, fmt.Sprintf("%d:%s:%x", l, u.id, d))
					}
				}
			}
			sort.Strings(es)
			lines = append(lines, fmt.Sprintf("%s vec=%x lvl=%d meta=%v edges=%v", id, []float32(v.vector), v.level, ks, es))
		}
	}
	sort.Strings(lines)
	ep := "nil"
	if e := (*hnswVertex)(atomic.LoadPointer(&ix.entrypoint)); e != nil {
		ep = e.id.String()
	}
	return fmt.Sprintf("len=%d bytes=%d ep=%s\n%v", ix.Len(), atomic.LoadUint64(&ix.bytesSize), ep, lines)
}

func TestVerifBoundedC08RoundTrip(t *testing.T) {
	ids := []uuid.UUID{uuid.Must(uuid.FromString("11111111-1111-4111-8111-111111111111")), uuid.Must(uuid.FromString("22222222-2222-4222-8222-222222222222")), uuid.Must(uuid.FromString("33333333-3333-4333-8333-333333333333"))}
	vecs := []math.Vector{{1, 0}, {0, 1}, {3, 4}}
	var ops []verifOp
	for id := 0; id < 3; id++ {
		ops = append(ops, verifOp{false, id, 0, 0})
		for m := 0; m < 3; m++ {
			for l := 0; l < 3; l += 2 {
				ops = append(ops, verifOp{true, id, m, l})
			}
		}
	}
	readers := map[string]func(io.Reader) io.Reader{
		"buffer":  func(r io.Reader) io.Reader { return r },
		"onebyte": iotest.OneByteReader,
		"half":    iotest.HalfReader,
	}
	cases, failures := 0, 0
	seen := map[string]bool{}
	report := func(format string, a ...interface{}) {
		failures++
		if failures <= 12 {
			t.Errorf(format, a...)
		}
	}
	var rec func(hist []verifOp)
	rec = func(hist []verifOp) {
		ix := NewHnsw(2, space.NewEuclidean())
		desc := ""
		for _, op := range hist {
			if op.insert {
				ix.Insert(ids[op.id], vecs[op.id], verifMeta(op.meta), op.level)
				desc += fmt.Sprintf("I%d(m%d,l%d) ", op.id, op.meta, op.level)
			} else {
				ix.Remove(ids[op.id])
				desc += fmt.Sprintf("R%d ", op.id)
			}
		}
		want := verifDump(ix)
		if !seen[want] || len(hist) == 0 {
			seen[want] = true
			for _, header := range []bool{false, true} {
				var buf bytes.Buffer
				if err := ix.Save(&buf, header); err != nil {
					report("history [%s] header=%v: Save failed: %v", desc, header, err)
					continue
				}
				data := buf.Bytes()
				for rname, wrap := range readers {
					for _, used := range []bool{false, true} {
						cases++
						dst := NewHnsw(2, space.NewEuclidean())
						if used {
							dst.Insert(uuid.Must(uuid.FromString("99999999-9999-4999-8999-999999999999")), math.Vector{9, 9}, Metadata{"old": "x"}, 1)
							dst.Insert(ids[0], math.Vector{7, 7}, Metadata{"stale": "y"}, 0)
						}
						src := bytes.NewReader(data)
						err := dst.Load(wrap(src), header)
						if err != nil {
							report("history [%s] header=%v reader=%s used=%v: Load of own output failed: %v", desc, header, rname, used, err)
							continue
						}
						if src.Len() != 0 {
							report("history [%s] header=%v reader=%s used=%v: %d bytes left unread", desc, header, rname, used, src.Len())
						}
						if got := verifDump(dst); got != want {
							report("history [%s] header=%v reader=%s used=%v:\n want %s\n got  %s", desc, header, rname, used, want, got)
						}
					}
				}
			}
		}
		if len(hist) == verifMaxOps {
			return
		}
		for _, op := range ops {
			rec(append(append([]verifOp{}, hist...), op))
		}
	}
	rec(nil)
	fmt.Fprintf(os.Stdout, "VERIF-BOUNDED C08 cases=%d distinct_states=%d failures=%d bound=histories<=%d ops over 3 ids x 3 metadata shapes x levels{0,2}, 3 readers, fresh+used target, header on/off\n", cases, len(seen), failures, verifMaxOps)
}
